"""C10 - algebraic and structural operations return valid permutations obeying their laws.

spec -> code : every state of C10_Algebra (all permutations up to a bound with every index / value /
               shift argument in -7..7; all pairs; all triples; every inflation of every p by every
               component list over {None, empty, 0, 01, 10}) is replayed on the real Perm methods,
               their default-argument forms, operator forms (+ - *) and aliases; the laws of the
               property are also evaluated on the values the real code returns.
code -> spec : random larger permutations and argument values; every call of the real code is one
               event judged by Trace_C10 (result is a bijection of the documented length, value is
               the definition, law events with both sides computed by the real code).
Hardening probes (same judge, Trace_C10): structured permutations of length 8-10 (monotone, layered, simple,
               involutions, inflations of simples) with EVERY index / value and shift amounts far beyond the
               length, long compose / sum chains, inflations with many / all-None / all-empty components given as
               generators, map objects and keywords; and sessions in which ONE Perm object (or the same two or
               three operands) answers many questions in a row, each at least twice, with other uses in between.
The definitions themselves are cross-checked once per run by LibSanity_Algebra.
"""
import inspect
import json
import math
import os
import shutil
import tempfile

from permuta import Perm

from harness import tlc, util

INVS = ["TypeOK", "UnaryValid", "InsertRemoveUndo", "CoversChildrenDual", "ShiftGroupLaws",
        "DecompositionsReassemble", "BlocksAreIntervals", "ContractionLaws", "SumLaws", "ComposeLaws",
        "Associativity", "InflationLaws"]
ARGMAX = 7
SHIFT_FN = {"right": "shift_right", "left": "shift_left", "up": "shift_up", "down": "shift_down"}
SHIFT_ALIASES = {"right": ["shift", "cyclic_shift", "cyclic_shift_right"], "left": ["cyclic_shift_left"]}
MONO_FN = {"both": "monotone_block_decomposition", "inc": "monotone_block_decomposition_ascending",
           "dec": "monotone_block_decomposition_descending"}
CONTRACT_FN = {"inc": ["contract_inc_bonds"], "dec": ["contract_dec_bonds"], "both": ["contract_bonds", "monotone_quotient"]}


class BadResult(Exception):
    """The real code returned something that is not even a Perm / list of Perms."""


# ------------------------------------------------------------------------------------------------
# performing one call of the real code, described by a JSON-able descriptor; returns the trace event
# ------------------------------------------------------------------------------------------------
def _perm(obj):
    if not isinstance(obj, Perm) or not all(isinstance(v, int) for v in obj):
        raise BadResult("not a Perm: %r" % (obj,))
    return [int(v) for v in obj]


def _perms(objs):
    return [_perm(o) for o in objs]


def _comps(cs):
    return [None if c["none"] else Perm(c["c"]) for c in cs]


class FormUnavailable(Exception):
    """A keyword form of a public method does not exist on this tree: reported as drift, never judged."""


def _kw(f, **kw):
    try:
        inspect.signature(f).bind(**kw)
    except TypeError as ex:
        raise FormUnavailable("%s: %s" % (getattr(f, "__name__", f), ex)) from ex
    return f(**kw)


# the objects of a session: a descriptor with a key "obj" (or "objs", parallel to "ps") is performed on ONE Perm object
# per key, kept between calls, so that whatever an object caches while it is used is part of the history
_SESSION = {}


def _held(key, p):
    o = _SESSION.get(key)
    if o is None or list(o) != list(p):
        o = _SESSION[key] = Perm(p)
    return o


def _subject(d):
    return _held(d["obj"], d["p"]) if "obj" in d else Perm(d["p"])


def _subjects(d):
    if "objs" in d:
        return [_held(k, x) for k, x in zip(d["objs"], d["ps"])]
    return [Perm(x) for x in d["ps"]]


def perform(d):
    """Run the call described by d on the real code; return d extended by the observed result."""
    e = dict(d)
    op = d["op"]
    form = d.get("form", "full")
    e["form"] = form
    if op == "Sum":
        ps = _subjects(d)
        meth = "direct_sum" if d["kind"] == "direct" else "skew_sum"
        if form == "operator":          # left-nested  ((a + b) + c)
            acc = ps[0]
            for x in ps[1:]:
                acc = acc + x if d["kind"] == "direct" else acc - x
            e["res"] = _perm(acc)
        else:
            e["res"] = _perm(getattr(ps[0], meth)(*ps[1:]))
    elif op == "Compose":
        ps = _subjects(d)
        if form == "operator":
            acc = ps[0]
            for x in ps[1:]:
                acc = acc * x
            e["res"] = _perm(acc)
        elif form == "multiply":
            e["res"] = _perm(ps[0].multiply(*ps[1:]))
        else:
            e["res"] = _perm(ps[0].compose(*ps[1:]))
    elif op == "Inflate":
        cs = _comps(d["cs"])
        p = _subject(d)
        if form == "keywords":
            e["res"] = _perm(_kw(p.inflate, components=cs))
        else:
            arg = {"full": list, "list": list, "tuple": tuple, "iter": iter, "gen": lambda x: (c for c in x),
                   "map": lambda x: map(lambda c: c, x)}[form](cs)
            e["res"] = _perm(p.inflate(arg))
    elif op == "Insert":
        p = _subject(d)
        if form == "noargs":
            r = p.insert()
        elif form == "index_only":
            r = p.insert(d["i"])
        elif form == "value_only":
            r = p.insert(new_element=d["v"])
        elif form == "keywords":
            r = p.insert(index=d["i"], new_element=d["v"])
        else:
            r = p.insert(d["i"], d["v"])
        e["res"] = _perm(r)
    elif op == "Remove":
        p = _subject(d)
        e["res"] = _perm(p.remove() if form == "noargs" else _kw(p.remove, index=d["i"]) if form == "keywords" else p.remove(d["i"]))
    elif op == "RemoveElement":
        p = _subject(d)
        e["res"] = _perm(p.remove_element() if form == "noargs" else _kw(p.remove_element, selected=d["v"]) if form == "keywords"
                         else p.remove_element(d["v"]))
    elif op == "Shift":
        f = getattr(_subject(d), d.get("fn") or SHIFT_FN[d["dir"]])
        e["res"] = _perm(f() if form == "noargs" else _kw(f, times=d["t"]) if form == "keywords" else f(d["t"]))
    elif op == "Decomp":
        p = _subject(d)
        if d["kind"] == "sum":
            e["res"], e["flag"] = _perms(p.sum_decomposition()), bool(p.is_sum_decomposable())
        else:
            e["res"], e["flag"] = _perms(p.skew_decomposition()), bool(p.is_skew_decomposable())
    elif op == "Blocks":
        p = _subject(d)
        e["res"] = [sorted(int(a) for a in b) for b in p.block_decomposition()]
        e["pats"] = sorted({tuple(_perm(x)) for x in p.block_decomposition_as_pattern()})
        e["pats"] = [list(x) for x in e["pats"]]
        mb = p.maximum_block()
        e["maxlen"], e["maxstart"] = int(mb[0]), int(mb[1])
        e["simple"], e["ssimple"] = bool(p.is_simple()), bool(p.is_strongly_simple())
    elif op == "Mono":
        f = getattr(_subject(d), d.get("fn") or MONO_FN[d["kind"]])
        got = list(f() if form == "noargs" else _kw(f, with_ones=d["ones"]) if form == "keywords" else f(d["ones"]))
        e["res"] = sorted([int(a), int(b)] for a, b in got)
    elif op == "Contract":
        e["res"] = _perm(getattr(_subject(d), d.get("fn") or CONTRACT_FN[d["kind"]][0])())
    elif op == "Shadow":
        e["res"] = [list(x) for x in sorted({tuple(_perm(c)) for c in _subject(d).children()})]
    elif op == "Covers":
        e["res"] = [list(x) for x in sorted({tuple(_perm(c)) for c in _subject(d).coveredby()})]
    elif op == "Touch":
        # not an event: other uses of the session object between two judged calls (fills what it caches for searches)
        p = _subject(d)
        q = Perm(d["q"])
        p.contains(q)
        list(p.occurrences_in(q))
        q.contains(p)
        hash(p)
        p.inverse()
        e["skip"] = True
    elif op == "Law":
        _law(d, e)
    else:
        raise tlc.MachineryFailure("unknown op %r" % op)
    return e


def _law(d, e):
    name = d["name"]
    p = Perm(d["p"])
    q = Perm(d["q"]) if "q" in d else None
    r = Perm(d["r"]) if "r" in d else None
    n = len(p)
    if name == "Associative":
        e["lhs"], e["rhs"] = _perm((p * q) * r), _perm(p * (q * r))
    elif name == "Identity":
        e["lhs"], e["rhs"] = _perm(p * Perm.identity(n)), _perm(Perm.identity(n) * p)
    elif name == "Inverse":
        e["lhs"], e["rhs"] = _perm(p * p.inverse()), _perm(p.inverse() * p)
    elif name == "InverseOfProduct":
        e["lhs"], e["rhs"] = _perm((p * q).inverse()), _perm(q.inverse() * p.inverse())
    elif name == "SumAssociative":
        e["lhs"], e["rhs"] = _perm((p + q) + r), _perm(p + (q + r))
    elif name == "SkewAssociative":
        e["lhs"], e["rhs"] = _perm((p - q) - r), _perm(p - (q - r))
    elif name == "RemoveUndoesInsert":
        ins = p.insert(d["i"], d["v"])
        e["lhs"], e["rhs"] = _perm(ins.remove(d["i"])), _perm(ins.remove_element(d["v"]))
    elif name == "InsertUndoesRemove":
        e["lhs"] = _perm(p.remove(d["i"]).insert(d["i"], p[d["i"]]))
    elif name == "ShiftsCompose":
        f = SHIFT_FN[d["dir"]]
        e["lhs"], e["rhs"] = _perm(getattr(getattr(p, f)(d["s"]), f)(d["t"])), _perm(getattr(p, f)(d["s"] + d["t"]))
    elif name == "ShiftInverse":
        e["lhs"], e["rhs"] = _perm(p.shift_right(d["t"]).shift_left(d["t"])), _perm(p.shift_up(d["t"]).shift_down(d["t"]))
    elif name == "CoversChildrenDual":
        e["incovers"], e["inchildren"] = q in set(p.coveredby()), p in set(q.children())
    elif name == "SumOfDecomposition":
        parts = p.sum_decomposition() if d["kind"] == "sum" else p.skew_decomposition()
        if d["kind"] == "sum":
            e["lhs"] = _perm(parts[0].direct_sum(*parts[1:]))
        else:
            e["lhs"] = _perm(parts[0].skew_sum(*parts[1:]))
    elif name == "InflateOfPoints":
        e["lhs"] = _perm(p.inflate([None if (i + d["t"]) % 2 else Perm((0,)) for i in range(n)]))
    elif name == "SumIsInflation":
        ps = [Perm(x) for x in d["ps"]]
        if d["kind"] == "direct":
            e["lhs"], e["rhs"] = _perm(Perm.identity(len(ps)).inflate(ps)), _perm(ps[0].direct_sum(*ps[1:]))
        else:
            e["lhs"], e["rhs"] = _perm(Perm.monotone_decreasing(len(ps)).inflate(ps)), _perm(ps[0].skew_sum(*ps[1:]))
    else:
        raise tlc.MachineryFailure("unknown law %r" % name)


# ------------------------------------------------------------------------------------------------
# spec -> code: judging the records TLC emitted
# ------------------------------------------------------------------------------------------------
def is_perm_of_len(x, k):
    return isinstance(x, list) and len(x) == k and sorted(x) == list(range(k))


def expect_perm(ctx, desc, clause, want):
    """Perform desc; the result must be a bijection of len(want) and equal want."""
    case = {"kind": "state", "ev": desc}
    try:
        got = perform(desc)["res"]
    except BadResult as ex:
        ctx.violation(case, "ReturnsPermutation", want, str(ex))
        return None
    except Exception as ex:  # pylint: disable=broad-except
        ctx.violation(case, "NoException", want, type(ex).__name__ + ": " + str(ex)[:100])
        return None
    if not is_perm_of_len(got, len(want)):
        ctx.violation(case, "ReturnsPermutation", want, got)
    elif got != want:
        ctx.violation(case, clause, want, got)
    return got


def expect_outside(ctx, desc, length):
    """Arguments outside the documented domain: nothing is promised except that a returned value is a
    permutation of the documented length (raising is fine)."""
    case = {"kind": "state", "ev": desc, "outside_domain": True}
    try:
        got = perform(desc)["res"]
    except BadResult as ex:
        ctx.violation(case, "ReturnsPermutation", "an exception or a permutation of length %d" % length, str(ex))
        return
    except Exception:  # pylint: disable=broad-except
        return
    if not is_perm_of_len(got, length):
        ctx.violation(case, "ReturnsPermutation", "an exception or a permutation of length %d" % length, got)


def expect_value(ctx, desc, clause, field, want, fix=None):
    case = {"kind": "state", "ev": desc, "field": field}
    try:
        got = perform(desc)[field]
    except BadResult as ex:
        ctx.violation(case, "ReturnsPermutation", want, str(ex))
        return None
    except Exception as ex:  # pylint: disable=broad-except
        ctx.violation(case, "NoException", want, type(ex).__name__ + ": " + str(ex)[:100])
        return None
    if fix:
        got = fix(got)
    if got != want:
        ctx.violation(case, clause, want, got)
    return got


def law(ctx, desc, clause, holds, want=None, got=None):
    if not holds:
        ctx.violation({"kind": "law", "ev": desc}, clause, want, got)


def judge_unary(ctx, rec, stats):
    p = rec["p"]
    n = len(p)
    P = Perm(p)
    stats["unary"].add(tuple(p))
    ctx.case(("unary", tuple(p)), nontrivial=n >= 2)
    # ---- insert --------------------------------------------------------------------------------
    ins = {(e["i"], e["v"]): e for e in rec["ins"]}
    for (i, v), e in ins.items():
        d = {"op": "Insert", "p": p, "i": i, "v": v}
        ctx.case()
        if e["ok"]:
            got = expect_perm(ctx, d, "InsertPlacesPoint", e["res"])
            stats["insert_ends"] += i in (0, n)
            if got is not None:
                # laws on the code's own results: removal undoes insertion; the point is where asked
                ld = {"op": "Law", "name": "RemoveUndoesInsert", "p": p, "i": i, "v": v}
                st, ev = util.call(perform, ld)
                law(ctx, ld, "RemoveUndoesInsert", st == "ok" and ev["lhs"] == p and ev["rhs"] == p, p, ev)
        else:
            expect_outside(ctx, d, n + 1)
    di, dv = rec["defi"], rec["defv"]
    expect_perm(ctx, {"op": "Insert", "p": p, "form": "noargs"}, "InsertDefaults", ins[(di, dv)]["res"])
    for i in range(0, n + 1):
        expect_perm(ctx, {"op": "Insert", "p": p, "i": i, "form": "index_only"}, "InsertDefaults", ins[(i, dv)]["res"])
        expect_perm(ctx, {"op": "Insert", "p": p, "v": i, "form": "value_only"}, "InsertDefaults", ins[(di, i)]["res"])
        expect_perm(ctx, {"op": "Insert", "p": p, "i": i, "v": n - i, "form": "keywords"}, "InsertPlacesPoint", ins[(i, n - i)]["res"])
    # ---- remove / remove_element ---------------------------------------------------------------------
    remv = {e["v"]: e for e in rec["remv"]}
    for e in rec["rem"]:
        d = {"op": "Remove", "p": p, "i": e["i"]}
        ctx.case()
        if e["ok"]:
            expect_perm(ctx, d, "RemoveDeletesPoint", e["res"])
            ld = {"op": "Law", "name": "InsertUndoesRemove", "p": p, "i": e["i"]}
            st, ev = util.call(perform, ld)
            law(ctx, ld, "InsertUndoesRemove", st == "ok" and ev["lhs"] == p, p, ev)
        else:
            expect_outside(ctx, d, max(n - 1, 0))
    for e in rec["remv"]:
        d = {"op": "RemoveElement", "p": p, "v": e["v"]}
        ctx.case()
        if e["ok"]:
            expect_perm(ctx, d, "RemoveDeletesPoint", e["res"])
        else:
            expect_outside(ctx, d, max(n - 1, 0))
    if n >= 1:
        expect_perm(ctx, {"op": "Remove", "p": p, "form": "noargs"}, "RemoveDefaults", remv[rec["defrem"]]["res"])
        expect_perm(ctx, {"op": "RemoveElement", "p": p, "form": "noargs"}, "RemoveDefaults", remv[rec["defrem"]]["res"])
    else:
        expect_outside(ctx, {"op": "Remove", "p": p, "form": "noargs"}, 0)
        expect_outside(ctx, {"op": "RemoveElement", "p": p, "form": "noargs"}, 0)
    # ---- shifts --------------------------------------------------------------------------------------
    sh = {e["t"]: e for e in rec["sh"]}
    for t, e in sh.items():
        for dr in SHIFT_FN:
            ctx.case()
            expect_perm(ctx, {"op": "Shift", "dir": dr, "p": p, "t": t}, "ShiftIsCyclicAction", e[dr])
            for al in SHIFT_ALIASES.get(dr, ()):
                if hasattr(Perm, al) and t in (-ARGMAX, -1, 0, 1, 2, ARGMAX):
                    expect_perm(ctx, {"op": "Shift", "dir": dr, "p": p, "t": t, "fn": al}, "ShiftIsCyclicAction", e[dr])
    for dr in SHIFT_FN:
        expect_perm(ctx, {"op": "Shift", "dir": dr, "p": p, "form": "noargs"}, "ShiftDefaults", sh[1][dr])
    # group laws on the code's results: shift(s) then shift(t) = shift(s + t); left/down invert right/up
    for dr, fn in SHIFT_FN.items():
        f = getattr(Perm, fn)
        for s in sh:
            st, ps = util.call(f, P, s)
            if st != "ok":
                continue  # already reported above
            for t in sh:
                st, lhs = util.call(f, ps, t)
                st2, rhs = util.call(f, P, s + t)
                ctx.case()
                if st != "ok" or st2 != "ok" or tuple(lhs) != tuple(rhs):
                    law(ctx, {"op": "Law", "name": "ShiftsCompose", "dir": dr, "p": p, "s": s, "t": t}, "ShiftsCompose", False, rhs, lhs)
    for t in sh:
        ld = {"op": "Law", "name": "ShiftInverse", "p": p, "t": t}
        st, ev = util.call(perform, ld)
        law(ctx, ld, "ShiftInverse", st == "ok" and ev["lhs"] == p and ev["rhs"] == p, p, ev)
    # ---- decompositions ----------------------------------------------------------------------------------
    for kind, key, flag in (("sum", "sumdec", "sumd"), ("skew", "skewdec", "skewd")):
        d = {"op": "Decomp", "kind": kind, "p": p}
        ctx.case()
        got = expect_value(ctx, d, "DecompositionByCuts", "res", rec[key])
        expect_value(ctx, d, "DecomposableByDefinition", "flag", rec[flag])
        alias = kind + "_decomposable"
        if hasattr(Perm, alias):
            st, fl = util.call(getattr(P, alias))
            if st != "ok" or bool(fl) != rec[flag]:
                ctx.violation({"kind": "state", "ev": dict(d, fn=alias)}, "DecomposableByDefinition", rec[flag], fl)
        if got and n >= 1:
            for part in got:
                if not is_perm_of_len(part, len(part)) or len(part) == 0:
                    ctx.violation({"kind": "state", "ev": d}, "ReturnsPermutation", rec[key], got)
            ld = {"op": "Law", "name": "SumOfDecomposition", "kind": kind, "p": p}
            st, ev = util.call(perform, ld)
            law(ctx, ld, "DecompositionReassembles", st == "ok" and ev["lhs"] == p, p, ev)
            stats["decomposed"] += len(got) >= 2
    # ---- intervals, simplicity -----------------------------------------------------------------------------
    d = {"op": "Blocks", "p": p}
    ctx.case(n=5)
    expect_value(ctx, d, "BlocksAreAllIntervals", "res", rec["blocks"])
    expect_value(ctx, d, "BlockPatterns", "pats", sorted(rec["blockpats"]))
    expect_value(ctx, d, "MaximumBlock", "maxlen", rec["maxlen"])
    if rec["maxlen"] > 0:
        expect_value(ctx, d, "MaximumBlock", "maxstart", True, fix=lambda a: a in rec["maxstarts"])
    else:
        expect_value(ctx, d, "MaximumBlock", "maxstart", 0)
    expect_value(ctx, d, "SimpleByDefinition", "simple", rec["simple"])
    expect_value(ctx, d, "StronglySimpleByDefinition", "ssimple", rec["ssimple"])
    stats["longblock"] += n >= 3 and len(rec["blocks"][n - 1]) > 0
    for al in ("all_intervals", "decomposition"):
        if hasattr(Perm, al):
            st, got = util.call(lambda: [sorted(b) for b in getattr(P, al)()])
            if st != "ok" or got != rec["blocks"]:
                ctx.violation({"kind": "state", "ev": dict(d, fn=al)}, "BlocksAreAllIntervals", rec["blocks"], got)
    for al in ("maximal_interval", "simple_location"):
        if hasattr(Perm, al):
            st, got = util.call(getattr(P, al))
            if st != "ok" or got[0] != rec["maxlen"] or (rec["maxlen"] > 0 and got[1] not in rec["maxstarts"]):
                ctx.violation({"kind": "state", "ev": dict(d, fn=al)}, "MaximumBlock", [rec["maxlen"], rec["maxstarts"]], got)
    # ---- monotone blocks, contractions ---------------------------------------------------------------------------
    for e in rec["mono"]:
        ctx.case()
        want = sorted(e["res"])
        expect_value(ctx, {"op": "Mono", "p": p, "kind": e["kind"], "ones": e["ones"]}, "MonotoneBlocksAreMaximalRuns", "res", want)
        if not e["ones"]:
            expect_value(ctx, {"op": "Mono", "p": p, "kind": e["kind"], "form": "noargs"}, "MonotoneBlocksDefaults", "res", want)
        if e["kind"] == "both" and hasattr(Perm, "all_monotone_intervals"):
            expect_value(ctx, {"op": "Mono", "p": p, "kind": "both", "ones": e["ones"], "fn": "all_monotone_intervals"},
                         "MonotoneBlocksAreMaximalRuns", "res", want)
    for kind, key in (("inc", "coninc"), ("dec", "condec"), ("both", "conboth")):
        for fn in CONTRACT_FN[kind]:
            ctx.case()
            expect_perm(ctx, {"op": "Contract", "p": p, "kind": kind, "fn": fn}, "ContractionIsQuotient", rec[key])
        stats["contracted"] += len(rec[key]) < n
    # ---- shadow and covers ---------------------------------------------------------------------------------------------
    ctx.case(n=2)
    ch = expect_value(ctx, {"op": "Shadow", "p": p}, "ChildrenIsShadow", "res", sorted(rec["children"]))
    cv = expect_value(ctx, {"op": "Covers", "p": p}, "CoversAreOnePointExtensions", "res", sorted(rec["covers"]))
    if hasattr(Perm, "shrink_by_one"):
        st, got = util.call(lambda: sorted({tuple(c) for c in P.shrink_by_one()}))
        if st != "ok" or [list(x) for x in got] != sorted(rec["children"]):
            ctx.violation({"kind": "state", "ev": {"op": "Shadow", "p": p, "fn": "shrink_by_one"}}, "ChildrenIsShadow", sorted(rec["children"]), got)
    for c in ch or ():
        if not is_perm_of_len(c, n - 1):
            ctx.violation({"kind": "state", "ev": {"op": "Shadow", "p": p}}, "ReturnsPermutation", n - 1, c)
        ld = {"op": "Law", "name": "CoversChildrenDual", "p": c, "q": p}
        st, ev = util.call(perform, ld)
        law(ctx, ld, "CoversChildrenDual", st == "ok" and ev["incovers"] and ev["inchildren"], True, ev)
    for c in cv or ():
        if not is_perm_of_len(c, n + 1):
            ctx.violation({"kind": "state", "ev": {"op": "Covers", "p": p}}, "ReturnsPermutation", n + 1, c)
        ld = {"op": "Law", "name": "CoversChildrenDual", "p": p, "q": c}
        st, ev = util.call(perform, ld)
        law(ctx, ld, "CoversChildrenDual", st == "ok" and ev["incovers"] and ev["inchildren"], True, ev)
    # the inverse used by the group laws below is the one the specification means
    st, inv = util.call(lambda: list(P.inverse()))
    if st != "ok" or inv != rec["inv"]:
        ctx.violation({"kind": "state", "ev": {"op": "Inverse", "p": p}}, "InverseIsInverse", rec["inv"], inv)
    for nm in ("Identity", "Inverse"):
        ld = {"op": "Law", "name": nm, "p": p}
        st, ev = util.call(perform, ld)
        want = p if nm == "Identity" else list(range(n))
        law(ctx, ld, "Compose" + nm, st == "ok" and ev["lhs"] == want and ev["rhs"] == want, want, ev)


def judge_pair(ctx, rec, stats):
    p, q = rec["p"], rec["q"]
    stats["pair"].add((tuple(p), tuple(q)))
    ctx.case(("pair", tuple(p), tuple(q)), nontrivial=len(p) >= 1 and len(q) >= 1, n=4)
    for kind, key, clause in (("direct", "dsum", "DirectSumIsDiagramSum"), ("skew", "ssum", "SkewSumIsDiagramSum")):
        expect_perm(ctx, {"op": "Sum", "kind": kind, "ps": [p, q]}, clause, rec[key])
        expect_perm(ctx, {"op": "Sum", "kind": kind, "ps": [p, q], "form": "operator"}, clause, rec[key])
    if q == []:
        for kind in ("direct", "skew"):
            expect_perm(ctx, {"op": "Sum", "kind": kind, "ps": [p]}, "SumOfOne", p)
        expect_perm(ctx, {"op": "Compose", "ps": [p]}, "ComposeOfOne", p)
    if rec["cok"]:
        stats["composed"] += 1
        ctx.case(n=4)
        for form in ("full", "operator", "multiply"):
            if form == "multiply" and not hasattr(Perm, "multiply"):
                continue
            expect_perm(ctx, {"op": "Compose", "ps": [p, q], "form": form}, "ComposeIsFunctionComposition", rec["comp"])
        ld = {"op": "Law", "name": "InverseOfProduct", "p": p, "q": q}
        st, ev = util.call(perform, ld)
        law(ctx, ld, "InverseOfProduct", st == "ok" and ev["lhs"] == rec["invcomp"] and ev["rhs"] == rec["invcomp"], rec["invcomp"], ev)
        # __call__ agrees with composition:  (p*q)(x) = p(q(x))
        st, ok = util.call(lambda: all(Perm(p)(Perm(q)(x)) == rec["comp"][x] for x in range(len(p))))
        law(ctx, {"op": "Compose", "ps": [p, q], "form": "call"}, "ComposeIsFunctionComposition", st == "ok" and ok, rec["comp"], ok)


def judge_triple(ctx, rec, stats):
    p, q, r = rec["p"], rec["q"], rec["r"]
    stats["triple"].add((tuple(p), tuple(q), tuple(r)))
    ctx.case(("triple", tuple(p), tuple(q), tuple(r)), nontrivial=min(len(p), len(q), len(r)) >= 1, n=4)
    for kind, key, clause, lawname in (("direct", "dsum", "DirectSumIsDiagramSum", "SumAssociative"),
                                       ("skew", "ssum", "SkewSumIsDiagramSum", "SkewAssociative")):
        expect_perm(ctx, {"op": "Sum", "kind": kind, "ps": [p, q, r]}, clause, rec[key])
        ld = {"op": "Law", "name": lawname, "p": p, "q": q, "r": r}
        st, ev = util.call(perform, ld)
        law(ctx, ld, lawname, st == "ok" and ev["lhs"] == rec[key] and ev["rhs"] == rec[key], rec[key], ev)
    if rec["cok"]:
        stats["composed3"] += 1
        expect_perm(ctx, {"op": "Compose", "ps": [p, q, r]}, "ComposeIsFunctionComposition", rec["comp"])
        ld = {"op": "Law", "name": "Associative", "p": p, "q": q, "r": r}
        st, ev = util.call(perform, ld)
        law(ctx, ld, "Associative", st == "ok" and ev["lhs"] == rec["comp"] and ev["rhs"] == rec["comp"], rec["comp"], ev)


def judge_inflate(ctx, rec, stats):
    p, cs = rec["p"], rec["comps"]
    key = (tuple(p), tuple((c["none"], tuple(c["c"])) for c in cs))
    stats["inflate"].add(key)
    stats["none_comp"] += any(c["none"] for c in cs)
    stats["empty_comp"] += any(not c["none"] and not c["c"] for c in cs)
    ctx.case(("inflate",) + key, nontrivial=len(p) >= 2 and any(len(c["c"]) >= 2 for c in cs))
    for form in ("list", "tuple", "iter"):
        expect_perm(ctx, {"op": "Inflate", "p": p, "cs": cs, "form": form}, "InflateIsSubstitution", rec["res"])


JUDGE = {"unary": judge_unary, "pair": judge_pair, "triple": judge_triple, "inflate": judge_inflate}


def machine_jobs(quick):
    base = {"MinLen": 0, "ArgMax": ARGMAX, "CompMax": 2, "CoverContainMax": 4}
    inv = INVS + ["EmitState"]
    plan = []   # (mode, maxlen, shards, extra constants)
    if quick:
        plan = [("unary", 5, 11, {}), ("pair", 4, 2, {}), ("triple", 3, 1, {}), ("inflate", 3, 1, {})]
    else:
        plan = [("unary", 6, 16, {}), ("pair", 5, 8, {}), ("triple", 4, 8, {}),
                ("inflate", 4, 6, {}), ("inflate", 3, 3, {"CompMax": 3})]
    jobs = []
    for mode, mx, nsh, extra in plan:
        for s in range(nsh):
            k = dict(base, Mode='"%s"' % mode, MaxLen=mx, Shard=s, NShards=nsh)
            k.update(extra)
            jobs.append(("C10_Algebra", util.cfg(init="Init", next_="Stutter", invariants=inv, constants=k), {"timeout": 3000}))
    return plan, jobs


def nperms(lo, hi):
    return sum(math.factorial(k) for k in range(lo, hi + 1))


# ------------------------------------------------------------------------------------------------
# code -> spec: random larger inputs
# ------------------------------------------------------------------------------------------------
def random_descriptors(rnd, count, maxlen):
    out = []

    def rp(lo=0, hi=maxlen):
        return list(util.rand_perm(rnd, rnd.randint(lo, hi)))

    def rcomp():
        x = rnd.random()
        if x < 0.2:
            return {"none": True, "c": []}
        if x < 0.35:
            return {"none": False, "c": []}
        return {"none": False, "c": list(util.rand_perm(rnd, rnd.randint(1, 4)))}

    for _ in range(count):
        k = rnd.randrange(20)
        p = rp()
        n = len(p)
        if k == 0:
            ps = [rp(0, 5) for _ in range(rnd.randint(1, 4))]
            kind = rnd.choice(["direct", "skew"])
            out.append({"op": "Sum", "kind": kind, "ps": ps, "form": rnd.choice(["full", "operator"])})
            if len(ps) == 3:
                out.append({"op": "Law", "name": "SumAssociative" if kind == "direct" else "SkewAssociative", "p": ps[0], "q": ps[1], "r": ps[2]})
            out.append({"op": "Law", "name": "SumIsInflation", "kind": kind, "p": ps[0], "ps": ps})
        elif k == 1:
            m = rnd.randint(0, maxlen)
            ps = [list(util.rand_perm(rnd, m)) for _ in range(rnd.randint(1, 4))]
            out.append({"op": "Compose", "ps": ps, "form": rnd.choice(["full", "operator", "multiply"])})
            if len(ps) >= 2:
                out.append({"op": "Law", "name": "InverseOfProduct", "p": ps[0], "q": ps[1]})
            if len(ps) >= 3:
                out.append({"op": "Law", "name": "Associative", "p": ps[0], "q": ps[1], "r": ps[2]})
            out.append({"op": "Law", "name": "Inverse", "p": ps[0]})
            out.append({"op": "Law", "name": "Identity", "p": ps[0]})
        elif k in (2, 3):
            q = rp(0, 5)
            out.append({"op": "Inflate", "p": q, "cs": [rcomp() for _ in q], "form": rnd.choice(["list", "tuple", "iter"])})
            out.append({"op": "Law", "name": "InflateOfPoints", "p": p, "t": rnd.randint(0, 1)})
        elif k in (4, 5):
            i, v = rnd.choice([0, n, rnd.randint(0, n)]), rnd.choice([0, n, rnd.randint(0, n)])
            out.append({"op": "Insert", "p": p, "i": i, "v": v, "form": rnd.choice(["full", "full", "noargs", "index_only", "value_only", "keywords"])})
            out.append({"op": "Law", "name": "RemoveUndoesInsert", "p": p, "i": i, "v": v})
        elif k == 6 and n >= 1:
            i = rnd.choice([0, n - 1, rnd.randrange(n)])
            out.append({"op": "Remove", "p": p, "i": i, "form": rnd.choice(["full", "full", "noargs"])})
            out.append({"op": "Law", "name": "InsertUndoesRemove", "p": p, "i": i})
        elif k == 7 and n >= 1:
            out.append({"op": "RemoveElement", "p": p, "v": rnd.choice([0, n - 1, rnd.randrange(n)]), "form": rnd.choice(["full", "full", "noargs"])})
        elif k in (8, 9):
            dr = rnd.choice(sorted(SHIFT_FN))
            s, t = rnd.randint(-25, 25), rnd.randint(-25, 25)
            out.append({"op": "Shift", "dir": dr, "p": p, "t": t, "form": rnd.choice(["full", "full", "full", "noargs"])})
            out.append({"op": "Law", "name": "ShiftsCompose", "dir": dr, "p": p, "s": s, "t": t})
            out.append({"op": "Law", "name": "ShiftInverse", "p": p, "t": t})
        elif k in (10, 11):
            # decomposable inputs are rare among random permutations: build some from parts
            kind = rnd.choice(["sum", "skew"])
            if rnd.random() < 0.7:
                parts = [Perm(rp(1, 4)) for _ in range(rnd.randint(1, 3))]
                p = list(parts[0].direct_sum(*parts[1:]) if kind == "sum" else parts[0].skew_sum(*parts[1:]))
            out.append({"op": "Decomp", "kind": kind, "p": p})
            if p:
                out.append({"op": "Law", "name": "SumOfDecomposition", "kind": kind, "p": p})
        elif k in (12, 13, 14):
            # inputs with intervals / simple inputs: random, inflated, or known simple families
            x = rnd.random()
            if x < 0.4:
                q = rp(2, 4)
                p = list(Perm(q).inflate([Perm(rp(1, 3)) for _ in q]))
            elif x < 0.55 and maxlen >= 6:
                m = rnd.randint(2, maxlen // 2)          # 2,4,..,2m,1,3,..: parallel alternation, simple for m >= 2
                p = [2 * i + 1 for i in range(m)] + [2 * i for i in range(m)]
            out.append({"op": "Blocks", "p": p})
        elif k == 15:
            if rnd.random() < 0.6 and n >= 2:
                q = rp(1, 4)
                p = list(Perm(q).inflate([rnd.choice([Perm.identity, Perm.monotone_decreasing])(rnd.randint(1, 3)) for _ in q]))
            kind = rnd.choice(["inc", "dec", "both"])
            out.append({"op": "Mono", "p": p, "kind": kind, "ones": rnd.random() < 0.5, "form": rnd.choice(["full", "full", "noargs"])})
            out.append({"op": "Contract", "p": p, "kind": kind, "fn": rnd.choice(CONTRACT_FN[kind])})
        elif k in (16, 17):
            p = rp(0, min(maxlen, 8))
            out.append({"op": "Shadow", "p": p})
            if p:
                c = list(Perm(p).remove(rnd.randrange(len(p))))
                out.append({"op": "Law", "name": "CoversChildrenDual", "p": c, "q": p})
        else:
            p = rp(0, min(maxlen, 7))
            out.append({"op": "Covers", "p": p})
            q = list(util.rand_perm(rnd, len(p) + 1))       # mostly not a cover: the negative side of the duality
            out.append({"op": "Law", "name": "CoversChildrenDual", "p": p, "q": q})
    return out


# ------------------------------------------------------------------------------------------------
# hardening probes: structured longer inputs with every boundary argument, argument forms, and sessions
# on one object.  These functions only choose inputs; every event is judged by Trace_C10.
# ------------------------------------------------------------------------------------------------
BIG = 500000003           # shift amounts far beyond the length (sums of two stay inside TLC's 32-bit integers)


def special_perms(rnd, n):
    """Permutations of length n with structure: monotone, layered, simple, involutions, inflations of a simple
    permutation, extreme entries at the ends."""
    out = [list(range(n)), list(range(n - 1, -1, -1))]
    cuts = sorted(rnd.sample(range(1, n), min(3, n - 1))) if n >= 2 else []
    layered, lo = [], 0
    for c in cuts + [n]:
        layered += list(range(c - 1, lo - 1, -1))
        lo = c
    out.append(layered)                                              # 1 (+) layered
    out.append([n - 1 - v for v in layered])                         # co-layered
    m = n // 2
    par = [2 * i + 1 for i in range(m)] + [2 * i for i in range(m)]  # 2 4 6 .. 1 3 5 .. : simple for m >= 2
    if n % 2:
        par = par[:m] + [n - 1] + par[m:]
    out.append(par)
    inv = list(range(n))
    idx = list(range(n))
    rnd.shuffle(idx)
    for a, b in zip(idx[0::2], idx[1::2][: n // 3]):
        inv[a], inv[b] = b, a
    out.append(inv)                                                  # an involution with fixed points
    sizes = [1, 1, 1, 1]
    for _ in range(n - 4):
        sizes[rnd.randrange(4)] += 1
    blocks = [rnd.choice([Perm.identity, Perm.monotone_decreasing])(k) for k in sizes]
    out.append(list(Perm((1, 3, 0, 2)).inflate(blocks)))             # 2413[monotone blocks]
    out.append(list(range(1, n)) + [0])                              # 2 3 .. n 1
    out.append([n - 1] + list(range(n - 1)))                         # n 1 2 .. n-1
    out.append(list(util.rand_perm(rnd, n)))
    return [q for q in out if len(q) == n and sorted(q) == list(range(n))]


def structured_descriptors(rnd, quick):
    out = []
    lengths = [8, 10] if quick else [7, 8, 9, 10]
    for n in lengths:
        cand = special_perms(rnd, n)
        rnd.shuffle(cand)
        for p in cand[:4 if quick else len(cand)]:
            # every index / every value, boundary values, keyword forms
            for i in range(n + 1):
                for v in sorted({0, n, rnd.randint(0, n)}):
                    out.append({"op": "Insert", "p": p, "i": i, "v": v, "form": "keywords" if (i + v) % 3 == 0 else "full"})
                out.append({"op": "Law", "name": "RemoveUndoesInsert", "p": p, "i": i, "v": rnd.randint(0, n)})
            for i in range(n):
                out.append({"op": "Remove", "p": p, "i": i, "form": "keywords" if i % 3 == 0 else "full"})
                out.append({"op": "RemoveElement", "p": p, "v": i, "form": "keywords" if i % 3 == 1 else "full"})
                out.append({"op": "Law", "name": "InsertUndoesRemove", "p": p, "i": i})
            for dr in sorted(SHIFT_FN):
                for t in (0, n, -n, n * 1000003, -n * 1000003, BIG, -BIG, BIG + rnd.randint(1, n), -BIG - rnd.randint(1, n), n - 1, 1 - n):
                    out.append({"op": "Shift", "dir": dr, "p": p, "t": t, "form": "keywords" if t % 4 == 0 else "full"})
                out.append({"op": "Law", "name": "ShiftsCompose", "dir": dr, "p": p, "s": BIG + rnd.randint(0, n), "t": -BIG + rnd.randint(0, n)})
                out.append({"op": "Law", "name": "ShiftsCompose", "dir": dr, "p": p, "s": BIG, "t": BIG + rnd.randint(0, n)})
            out.append({"op": "Law", "name": "ShiftInverse", "p": p, "t": BIG + 1})
            out.append({"op": "Blocks", "p": p})
            for kind in ("sum", "skew"):
                out.append({"op": "Decomp", "kind": kind, "p": p})
                out.append({"op": "Law", "name": "SumOfDecomposition", "kind": kind, "p": p})
            for kind in ("inc", "dec", "both"):
                out.append({"op": "Mono", "p": p, "kind": kind, "ones": True, "form": "keywords"})
                out.append({"op": "Mono", "p": p, "kind": kind, "ones": False, "form": "full"})
                for fn in CONTRACT_FN[kind]:
                    out.append({"op": "Contract", "p": p, "kind": kind, "fn": fn})
            if n <= 9:
                out.append({"op": "Shadow", "p": p})
            if n <= 8:
                out.append({"op": "Covers", "p": p})
    # block decompositions of inflations of simple permutations (the intervals are exactly inside / made of components)
    simples = [(1, 3, 0, 2), (2, 0, 3, 1), (1, 4, 2, 0, 3), (2, 4, 0, 3, 1), (1, 3, 5, 0, 2, 4), (2, 5, 3, 0, 4, 1)]
    for _ in range(10 if quick else 60):
        sp = Perm(rnd.choice(simples))
        comps = [Perm(util.rand_perm(rnd, rnd.choice([1, 1, 2, 3]))) for _ in sp]
        p = list(sp.inflate(comps))
        if len(p) <= 11:
            out.append({"op": "Blocks", "p": p})
            out.append({"op": "Inflate", "p": list(sp), "cs": [{"none": False, "c": list(c)} for c in comps],
                        "form": rnd.choice(["gen", "map", "keywords", "tuple"])})
    # inflations with many components: all None, all empty, one long component, mixed
    for _ in range(12 if quick else 80):
        q = list(util.rand_perm(rnd, rnd.randint(5, 7)))
        style = rnd.randrange(5)
        cs = []
        for j in range(len(q)):
            if style == 0:
                cs.append({"none": True, "c": []})
            elif style == 1:
                cs.append({"none": False, "c": []})
            elif style == 2:
                cs.append({"none": False, "c": list(util.rand_perm(rnd, 6 if j == len(q) // 2 else 0))})
            else:
                x = rnd.random()
                cs.append({"none": True, "c": []} if x < 0.25 else {"none": False, "c": list(util.rand_perm(rnd, rnd.randint(0, 2)))})
        out.append({"op": "Inflate", "p": q, "cs": cs, "form": rnd.choice(["gen", "map", "keywords", "iter", "list"])})
    # long chains
    for _ in range(10 if quick else 60):
        m = rnd.choice([7, 8, 9, 10])
        ps = [list(util.rand_perm(rnd, m)) for _ in range(rnd.randint(4, 6))]
        out.append({"op": "Compose", "ps": ps, "form": rnd.choice(["full", "operator", "multiply"])})
        parts = [list(util.rand_perm(rnd, rnd.randint(0, 3))) for _ in range(rnd.randint(4, 6))]
        kind = rnd.choice(["direct", "skew"])
        out.append({"op": "Sum", "kind": kind, "ps": parts, "form": rnd.choice(["full", "operator"])})
        out.append({"op": "Law", "name": "SumIsInflation", "kind": kind, "p": parts[0], "ps": parts})
    return out


UNARY_SESSION_OPS = ["Insert", "Remove", "RemoveElement", "Shift", "Decomp", "Blocks", "Mono", "Contract", "Shadow", "Covers", "Inflate", "Touch"]


def session_descriptors(rnd, quick):
    """The same Perm object in many operations in a row (every question asked at least twice, other uses of the
    object in between), and the same two or three objects as operands of sums and products in both orders."""
    out = []
    for sidx in range(14 if quick else 60):
        n = rnd.choice([5, 6, 7, 8])
        p = rnd.choice(special_perms(rnd, n))
        key = "s%d" % sidx
        # every kind of question once on the one object, in random order, before the random part
        asked = [{"op": "Decomp", "p": p, "obj": key, "kind": "sum"}, {"op": "Decomp", "p": p, "obj": key, "kind": "skew"},
                 {"op": "Blocks", "p": p, "obj": key}, {"op": "Shadow", "p": p, "obj": key}]
        asked += [{"op": "Mono", "p": p, "obj": key, "kind": k, "ones": k != "inc"} for k in ("inc", "dec", "both")]
        asked += [{"op": "Contract", "p": p, "obj": key, "kind": k} for k in ("inc", "dec", "both")]
        asked += [{"op": "Shift", "p": p, "obj": key, "dir": dr, "t": rnd.randint(1, n - 1)} for dr in sorted(SHIFT_FN)]
        rnd.shuffle(asked)
        out.extend(dict(d) for d in asked)
        for step in range(24 if quick else 40):
            if asked and rnd.random() < 0.35:
                d = dict(rnd.choice(asked))                           # the same question again
            else:
                op = rnd.choice(UNARY_SESSION_OPS)
                d = {"op": op, "p": p, "obj": key}
                if op == "Insert":
                    d.update(i=rnd.randint(0, n), v=rnd.randint(0, n))
                elif op == "Remove":
                    d.update(i=rnd.randrange(n))
                elif op == "RemoveElement":
                    d.update(v=rnd.randrange(n))
                elif op == "Shift":
                    d.update(dir=rnd.choice(sorted(SHIFT_FN)), t=rnd.randint(-2 * n, 2 * n))
                elif op == "Decomp":
                    d.update(kind=rnd.choice(["sum", "skew"]))
                elif op in ("Mono", "Contract"):
                    d.update(kind=rnd.choice(["inc", "dec", "both"]))
                    if op == "Mono":
                        d.update(ones=rnd.random() < 0.5)
                elif op == "Inflate":
                    d.update(cs=[{"none": rnd.random() < 0.3, "c": []} if rnd.random() < 0.5 else
                                 {"none": False, "c": list(util.rand_perm(rnd, rnd.randint(0, 2)))} for _ in p], form="gen")
                elif op == "Touch":
                    d.update(q=list(util.rand_perm(rnd, rnd.randint(2, 4))))
                elif op == "Covers" and n > 7:
                    d["op"] = "Shadow"
                if d["op"] != "Touch":
                    asked.append(d)
            out.append(d)
    for sidx in range(4 if quick else 30):
        m = rnd.choice([5, 6, 7])
        objs = ["b%d_%d" % (sidx, j) for j in range(3)]
        ps = [list(util.rand_perm(rnd, m)) for _ in objs]
        for step in range(10):
            k = rnd.choice([1, 2, 3, 3])
            order = [rnd.randrange(3) for _ in range(k)]              # repetitions allowed: p * p, p + q + p
            sel = {"ps": [ps[j] for j in order], "objs": [objs[j] for j in order]}
            kind = rnd.choice(["compose", "direct", "skew"])
            if kind == "compose":
                out.append(dict(sel, op="Compose", form=rnd.choice(["full", "operator", "multiply"])))
            else:
                out.append(dict(sel, op="Sum", kind=kind, form=rnd.choice(["full", "operator"])))
            if step % 4 == 3:
                out.append({"op": "Touch", "p": ps[order[0]], "obj": objs[order[0]], "q": [1, 0, 2]})
    return out


def simple_events(ctx, rnd, quick):
    """The simplicity predicates where they are likely to be TRUE (random permutations almost never are): every permutation of
    length 8 that the real code calls simple (the choice is made with the real predicate: it only selects inputs; a simple
    permutation it overlooks is met by the exhaustive part up to length 6-7 and the random events), a sample of length 9-10
    (all of length 9 in the thorough tier), and some the real code calls not simple."""
    import itertools
    ev = []
    pools = {8: list(itertools.permutations(range(8)))}
    if not quick:
        pools[9] = list(itertools.permutations(range(9)))
    for n, pool in pools.items():
        for q in pool:
            P = Perm(q)
            st, sim = util.call(P.is_simple)
            if st == "raise":
                ctx.violation({"kind": "trace-call", "ev": {"op": "Simple", "p": list(q)}}, "NoException", "a boolean", sim)
                break
            if sim or rnd.random() < 0.01:
                ev.append({"op": "Simple", "p": list(q), "simple": bool(sim), "ssimple": bool(P.is_strongly_simple())})
    want = 300 if quick else 3000
    tries = 0
    while want and tries < 400000:
        tries += 1
        q = util.rand_perm(rnd, rnd.choice([9, 9, 10]))
        P = Perm(q)
        if P.is_simple():
            want -= 1
            ev.append({"op": "Simple", "p": list(q), "simple": True, "ssimple": bool(P.is_strongly_simple())})
    ctx.note("simplicity_events", {"events": len(ev), "reported_strongly_simple": sum(1 for e in ev if e["ssimple"])})
    return ev


def record_events(ctx, descs):
    events = []
    for d in descs:
        try:
            ev = perform(d)
            if not ev.get("skip"):
                events.append(ev)
        except FormUnavailable as ex:
            ctx.drift("keyword form not available, not judged: %s" % ex)
        except BadResult as ex:
            ctx.violation({"kind": "trace-call", "ev": d}, "ReturnsPermutation", "a Perm", str(ex))
        except tlc.MachineryFailure:
            raise
        except Exception as ex:  # pylint: disable=broad-except
            ctx.violation({"kind": "trace-call", "ev": d}, "NoException", "a value (arguments are inside the documented domain)",
                          type(ex).__name__ + ": " + str(ex)[:100])
    return events


def validate_many(ctx, parts):
    """Trace validation of several chunks side by side (one JVM each); same acceptance test as
    util.validate_trace: every event consumed, exactly one verdict record."""
    d = tempfile.mkdtemp(prefix="verif-trace-")
    try:
        jobs = []
        c = util.cfg(init="TInit", next_="TNext", invariants=["TraceDone"])
        for i, part in enumerate(parts):
            path = os.path.join(d, "t%d.json" % i)
            with open(path, "w") as fh:
                json.dump(part, fh)
            jobs.append(("Trace_C10", c, {"timeout": 3000, "env": {"TRACE_FILE": path}}))
        results = tlc.run_many(jobs, parallel=16)
    finally:
        shutil.rmtree(d, ignore_errors=True)
    out = []
    for part, res in zip(parts, results):
        ctx.add_tlc(res, "trace validation")
        done = [r for r in res.records if isinstance(r, dict) and "verdict" in r]
        if len(done) != 1 or done[0]["n"] != len(part) or res.distinct != len(part) + 1:
            raise tlc.MachineryFailure("Trace_C10: trace not fully consumed (%d events, %d states, %d verdict records)\n%s" % (
                len(part), res.distinct, len(done), res.stdout[-1500:]))
        ctx.traces += len(part)
        out.append(done[0])
    return out


def strip(ev):
    """The descriptor an event was recorded from (drop observed fields)."""
    return {k: v for k, v in ev.items() if k not in ("res", "flag", "pats", "maxlen", "maxstart", "simple", "ssimple",
                                                      "lhs", "rhs", "incovers", "inchildren")}


def run(ctx):
    quick = ctx.tier == "quick"
    plan, jobs = machine_jobs(quick)
    # the definitional library is validated first-class in every run (its own JVM, side by side)
    jobs.append(("LibSanity_Algebra", util.cfg(init="Init", next_="Next"), {"timeout": 3000}))
    results = tlc.run_many(jobs, parallel=16)
    ctx.add_tlc(results[-1], "LibSanity_Algebra: theorems / counting sequences / alternative characterisations of the Algebra definitions")
    stats = {"unary": set(), "pair": set(), "triple": set(), "inflate": set(), "insert_ends": 0, "decomposed": 0,
             "longblock": 0, "contracted": 0, "composed": 0, "composed3": 0, "none_comp": 0, "empty_comp": 0}
    nrec = 0
    nstates = 0
    for r in results[:-1]:
        ctx.add_tlc(r, "input universe shard")
        nstates += r.distinct
        for rec in r.records:
            nrec += 1
            JUDGE[rec["mode"]](ctx, rec, stats)
            if nrec % 577 == 5 and rec["mode"] != "unary":
                ctx.sample({"machine": "C10_Algebra", "state": rec})
            if rec["mode"] == "unary" and rec["p"] == [1, 3, 0, 2]:
                ctx.sample({"machine": "C10_Algebra", "state": {k: v for k, v in rec.items() if k not in ("ins", "sh", "rem", "remv")},
                            "note": "tables ins/rem/remv/sh over all arguments -7..7 omitted from the sample"})
    # ---- vacuity / coverage guards (machinery failures, never verdicts) --------------------------------
    if nrec != nstates:
        raise tlc.MachineryFailure("C10: %d records for %d states" % (nrec, nstates))
    want = {"unary": 0, "pair": 0, "triple": 0, "inflate": 0}
    infl = set()
    for mode, mx, _nsh, extra in plan:
        if mode == "unary":
            want["unary"] = nperms(0, mx)
        elif mode == "pair":
            want["pair"] = nperms(0, mx) ** 2
        elif mode == "triple":
            want["triple"] = nperms(0, mx) ** 3
        else:
            infl.add((mx, extra.get("CompMax", 2)))
    ncomp = lambda cm: 1 + nperms(0, cm)
    # inflate universes overlap (p <= 3 with CompMax 2 is inside both thorough universes): count the union
    if len(infl) == 1:
        (mx, cm), = infl
        want["inflate"] = sum(math.factorial(k) * ncomp(cm) ** k for k in range(mx + 1))
    else:
        (m1, c1), (m2, c2) = sorted(infl)
        want["inflate"] = (sum(math.factorial(k) * ncomp(c1) ** k for k in range(m1 + 1))
                           + sum(math.factorial(k) * ncomp(c2) ** k for k in range(m2 + 1))
                           - sum(math.factorial(k) * ncomp(min(c1, c2)) ** k for k in range(min(m1, m2) + 1)))
    for mode, w in want.items():
        if len(stats[mode]) != w:
            raise tlc.MachineryFailure("C10: mode %s covered %d distinct inputs, expected %d" % (mode, len(stats[mode]), w))
    for k in ("insert_ends", "decomposed", "longblock", "contracted", "composed", "composed3", "none_comp", "empty_comp"):
        if stats[k] == 0:
            raise tlc.MachineryFailure("C10: vacuous run, no case of kind %s" % k)
    ctx.exhaustive = True
    ctx.note("tlc_range", "unary: all %d permutations of length <= %d x every index/value/shift argument in -7..7; "
             "pairs: all %d; triples: all %d; inflations: %d (every p with every component list over None, empty, ...)" % (
                 want["unary"], plan[0][1], want["pair"], want["triple"], want["inflate"]))
    ctx.note("coverage_floors", {k: (len(v) if isinstance(v, set) else v) for k, v in stats.items()})

    # ---- code -> spec ---------------------------------------------------------------------------------
    rnd = util.rng(ctx, 10)
    descs = random_descriptors(rnd, 450 if quick else 5000, 9 if quick else 10)
    rnd_h = util.rng(ctx, 1010)
    hard = structured_descriptors(rnd_h, quick) + session_descriptors(rnd_h, quick)
    ctx.note("hardening_descriptors", {"structured_and_sessions": len(hard)})
    events = record_events(ctx, descs + hard)
    events += simple_events(ctx, util.rng(ctx, 1011), quick)
    chunk = 300 if quick else 700
    parts = [events[i:i + chunk] for i in range(0, len(events), chunk)]
    verdicts = validate_many(ctx, parts)
    ctx.case(n=len(events))
    for ev in events:
        if ev["op"] in ("Blocks", "Decomp", "Inflate", "Covers", "Shadow") and len(ev["p"]) >= 6:
            ctx.nontrivial.add(("trace", json.dumps(strip(ev), sort_keys=True)))
    ctx.sample({"machine": "Trace_C10", "events": events[:3]})
    for part, v in zip(parts, verdicts):
        for b in v["verdict"]:
            ev = part[b["i"] - 1]
            ctx.violation({"kind": "trace-event", "ev": strip(ev)}, b["clause"], "value of the definition (see clause)",
                          {k: ev[k] for k in ev if k not in strip(ev)})
    ctx.rule = ("TLC enumerates every input of the bounded universes of C10_Algebra (Init over all permutations / pairs / "
                "triples / component lists, all arguments -7..7 tabulated per state), checks the laws of the property as "
                "invariants on the definitions and emits the expected value of every listed operation; each expectation is "
                "compared with the real Perm method, its default-argument, operator and alias forms, and the laws are "
                "re-evaluated on the values the real code returns; non-trivial = permutation of length >= 2 (unary), both "
                "operands non-empty (pairs/triples), a component of length >= 2 in a pattern of length >= 2 (inflation), "
                "and recorded calls on inputs of length >= 6 judged by Trace_C10")


def replay(ctx, path):
    rec = json.load(open(path))
    case = rec["case"]
    d = case.get("ev")
    if not d or d.get("op") == "Inverse" or d.get("form") == "call" or "obj" in d or "objs" in d:
        raise tlc.MachineryFailure("this case is replayed by re-running the check (no single-call descriptor)")
    try:
        ev = perform(d)
    except tlc.MachineryFailure:
        raise
    except Exception as ex:  # pylint: disable=broad-except
        if case.get("outside_domain") and not isinstance(ex, BadResult):
            print("replay: case passes on the current tree (raises outside the documented domain)")
            return 0
        print("VIOLATION property=C10 replay=%s" % path)
        print("  still failing: %s: %s" % (type(ex).__name__, ex))
        return 1
    if case.get("outside_domain"):
        want = len(d["p"]) + 1 if d["op"] == "Insert" else max(len(d["p"]) - 1, 0)
        ok = is_perm_of_len(ev["res"], want)
        print("replay: case passes on the current tree" if ok else "VIOLATION property=C10 replay=%s\n  still failing: %s" % (path, ev["res"]))
        return 0 if ok else 1
    ev.pop("fn", None)
    v = util.validate_trace(ctx, "Trace_C10", [ev])
    if v["verdict"]:
        print("VIOLATION property=C10 replay=%s" % path)
        print("  still failing: %s observed %s" % (v["verdict"], {k: ev[k] for k in ev if k not in strip(ev)}))
        return 1
    print("replay: case passes on the current tree")
    return 0
