"""C02 - Av(basis) is exactly the avoiders, independent of query history.

spec -> code : transition tours over the state graph of C02_AvCache (mechanism: levels, spots,
               compaction, class cache); after every call the reply is judged (VIOLATION) and the
               projection of the real caches is compared with the model state (DRIFT).
code -> spec : random histories with lazy iterators left open across other calls, validated by
               Trace_C02 (the same actions).
"""
import itertools
import json

from permuta import Av, Basis, MeshBasis, MeshPatt, Perm

from harness import tlc, tour, util

SITE_SUB = "Av.is_subclass when self or other has a mesh basis"
INVS = ["LevelsExact", "SpotsExact", "TopTwoUncompacted", "NoFault", "ReplyCorrect", "ItersSound", "CacheCoherent"]
OPS_MECH = '{"NewAv", "Count", "OfLength", "Enumeration", "Member"}'
OPS_CACHE = '{"NewAv", "ClearCache", "Count", "Member", "IsSubclass", "OfLength"}'
OPS_ALL = '{"NewAv", "ClearCache", "Count", "OfLength", "Enumeration", "Member", "IsSubclass", "Iter", "Interrupt"}'


# ---- basis descriptors -----------------------------------------------------------------
def contains(q, p):
    k = len(p)
    return any(all((q[c[i]] < q[c[j]]) == (p[i] < p[j]) for i in range(k) for j in range(k))
               for c in itertools.combinations(range(len(q)), k))


def classical(*perms):
    return {"mesh": False, "elems": [tuple(p) for p in perms]}


def mesh(*pats):
    return {"mesh": True, "elems": [(tuple(p), tuple(sorted(map(tuple, R)))) for p, R in pats]}


def tla_basis(bd):
    if bd["mesh"]:
        el = ", ".join("[p |-> %s, R |-> {%s}]" % (tlc.tla(list(p)), ", ".join(tlc.tla(list(c)) for c in R)) for p, R in bd["elems"])
    else:
        el = ", ".join(tlc.tla(list(p)) for p in bd["elems"])
    return "[mesh |-> %s, elems |-> {%s}]" % ("TRUE" if bd["mesh"] else "FALSE", el)


def real_basis_args(bd, variant=0):
    if bd["mesh"]:
        return [MeshPatt(Perm(p), R) for p, R in bd["elems"]]
    return [Perm(p) for p in bd["elems"]]


def make_av(bd, variant=0):
    """Av through different public constructors / element orders (all must denote the same object)."""
    el = real_basis_args(bd)
    if variant % 4 == 1:
        el = list(reversed(el))
    if variant % 4 == 2:
        el = el + el[:1]
    if bd["mesh"]:
        return Av(MeshBasis(*el)) if variant % 2 == 0 else Av.from_iterable(list(el))
    if variant % 4 == 3:
        return Av.from_string("_".join("".join(str(v + 1) for v in p) for p in bd["elems"]))
    return Av(Basis(*el)) if variant % 2 == 0 else Av(tuple(el))


def antichains(rnd, quick):
    s = {n: util.perms_of(n) for n in range(1, 6)}
    out = []
    pool = s[2] + s[3]
    for k in (1, 2, 3):
        for combo in itertools.combinations(pool, k):
            if all(not contains(a, b) and not contains(b, a) for a, b in itertools.combinations(combo, 2)):
                out.append(classical(*combo))
    out.append(classical((0,)))
    s4 = list(s[4])
    rnd.shuffle(s4)
    for p in s4[:6 if quick else 24]:
        out.append(classical(p))
    for _ in range(6 if quick else 40):
        a, b = rnd.choice(s4), rnd.choice(s[3] + s4)
        if a != b and not contains(a, b) and not contains(b, a):
            out.append(classical(a, b))
    for _ in range(2 if quick else 12):
        a = rnd.choice(s[5])
        b = rnd.choice(s[3])
        if not contains(a, b):
            out.append(classical(a, b))
    return out


def mesh_bases(rnd, quick):
    out = []
    for x in range(2):
        for y in range(2):
            out.append(mesh(((0,), [(x, y)])))
    out.append(mesh(((0,), [(0, 0), (0, 1), (1, 0), (1, 1)])))          # counts 1,0,2,6,24: an empty level, then non-empty ones
    out.append(mesh(((0, 1), [(1, 0), (1, 1), (1, 2)])))                # vincular 01 adjacent
    out.append(mesh(((1, 0), [(0, 1), (1, 1), (2, 1)])))                # covincular
    out.append(mesh(((0, 1), [(x, y) for x in range(3) for y in range(3)]), ((1, 0), [(x, y) for x in range(3) for y in range(3)])))
    out.append(mesh(((1, 0, 2), [(1, 0), (1, 1), (1, 2), (1, 3)]), ((0, 1), [(0, 0)])))
    out.append(mesh(((0, 2, 1), []), ((1, 0), [(1, 1)])))
    for _ in range(3 if quick else 20):
        k = rnd.choice([1, 2, 2, 3])
        p = util.rand_perm(rnd, k)
        R = [(x, y) for x in range(k + 1) for y in range(k + 1) if rnd.random() < 0.35]
        out.append(mesh((p, R)))
    return out


# ---- the real system ----------------------------------------------------------------------
class Real:
    def __init__(self, bases):
        self.bases = bases
        self.reset()

    def reset(self):
        Av.clear_cache()
        self.insts = []
        self.inst_b = []
        self.its = []
        self.nvar = 0

    def project(self):
        out = []
        for av in self.insts:
            levels = []
            for lev in av.cache:
                levels.append(sorted(({"p": list(p), "s": [-1] if s is None else sorted(set(s))} for p, s in lev.items()),
                                     key=lambda d: (len(d["p"]), d["p"])))
            out.append(levels)
        return out

    def proj_small(self):
        return [{"top": len(av.cache) - 1, "comp": [k for k, lev in enumerate(av.cache) if any(s is None for s in lev.values())]}
                for av in self.insts]

    def do(self, a):
        """Perform the call of action record a = {name,i,n,q}; returns the observable in model terms."""
        name = a["name"]
        if name == "NewAv":
            self.nvar += 1
            av = make_av(self.bases[a["n"] - 1], self.nvar)
            for k, x in enumerate(self.insts):
                if x is av:
                    return {"inst": k + 1}
            self.insts.append(av)
            self.inst_b.append(a["n"])
            return {"inst": len(self.insts)}
        if name == "ClearCache":
            Av.clear_cache()
            return {}
        av = self.insts[a["i"] - 1] if a["i"] else None
        if name == "Count":
            return {"n": av.count(a["n"])}
        if name == "OfLength":
            return {"list": [list(p) for p in av.of_length(a["n"])]}
        if name == "Enumeration":
            return {"seq": list(av.enumeration(a["n"]))}
        if name == "Member":
            return {"flag": Perm(a["q"]) in av}
        if name == "IsSubclass":
            return {"flag": av.is_subclass(self.insts[a["n"] - 1])}
        raise tlc.MachineryFailure("unknown action " + name)


def judge_reply(ctx, bases, real, a, reply, obs, case):
    name = a["name"]
    if name == "NewAv":
        exp, got = reply["n"], obs["inst"]
        clause = "CacheCoherent"
        ok = got == exp
        if not ok and reply["flag"] and got <= len(real.inst_b) and real.inst_b[got - 1] == a["n"]:
            # the model expected a new object (no cache entry: clear_cache happened since) and the code handed
            # back the older object of the *same* basis: identity across clear_cache is not promised -> drift;
            # the harness cannot continue this path (its instance numbering no longer matches the model's)
            ctx.drift("Av(basis %d) after clear_cache is the object created before it" % a["n"])
            return False
    elif name == "Count":
        ok, exp, got, clause = obs["n"] == reply["n"], reply["n"], obs["n"], "ReplyCorrect"
    elif name == "OfLength":
        exp = sorted(reply["set"])
        got = obs["list"]
        ok = sorted(got) == exp and len(got) == len(exp)
        clause = "ReplyCorrect"
    elif name == "Enumeration":
        ok, exp, got, clause = obs["seq"] == reply["seq"], reply["seq"], obs["seq"], "ReplyCorrect"
    elif name == "Member":
        ok, exp, got, clause = obs["flag"] == reply["flag"], reply["flag"], obs["flag"], "ReplyCorrect"
    elif name == "IsSubclass":
        exp, got, clause = reply["flag"], obs["flag"], "ReplyCorrect"
        ok = exp == got
        jb = case["bases"][case["inst_basis"][a["n"] - 1] - 1]
        ib = case["bases"][case["inst_basis"][a["i"] - 1] - 1]
        if jb["mesh"] or ib["mesh"]:
            # the model's value is the bounded ideal: FALSE is definite, TRUE only "not refuted up to the bound";
            # the coded walk (reply.n) is the named deviation IsSubclass_MeshBasisWalk
            if exp is False and got is True and got == bool(reply["n"]):
                e = ctx.known_entry(SITE_SUB, "IsSubclass_MeshBasisWalk")
                if e is not None:
                    ctx.known_finding(e, {"self": ib, "other": jb})
                    return True
            elif exp is True or got == exp:
                return True              # undecidable from a bounded universe, or the ideal answer: not judged / fine
    else:
        return True
    if not ok:
        ctx.violation(case, clause, exp, got)
    return ok


def run_tours(ctx, bases, ops, maxlen, maxinst, label, workers=1):
    """One TLC run over `bases`; returns (#edges replayed)."""
    mod = util.mc_module("MC_C02", "C02_AvCache", {"BasesDef": "<< " + ", ".join(tla_basis(b) for b in bases) + " >>", "OpsDef": ops})
    k = {"Bases": ("<-", "BasesDef"), "Ops": ("<-", "OpsDef"), "MaxLen": maxlen, "MaxInst": maxinst, "MaxIts": 0}
    c = util.cfg(init="Init", next_="Next", invariants=INVS + ["EmitState"], view="View", action_constraints=["EmitEdge"], constants=k)
    return ("MC_C02", c, {"files": {"MC_C02.tla": mod}, "timeout": 3000, "coverage": False})


def replay_graph(ctx, bases, res, label):
    states = {}
    edges = []
    for rec in res.records:
        if "key" in rec:
            states[tour.key(rec["key"])] = rec["full"]
        else:
            edges.append(rec)
    if not edges:
        raise tlc.MachineryFailure("C02 %s: no edges emitted" % label)
    init = tour.key({"insts": [], "cc": [0] * len(bases), "its": []})
    paths = tour.tours(edges, init)
    real = Real(bases)
    names = set()
    for path in paths:
        real.reset()
        hist = []
        for idx in path:
            e = edges[idx]
            a = e["act"]
            names.add(a["name"])
            hist.append({k: a[k] for k in ("name", "i", "n", "q")})
            inst_basis = [x["b"] for x in e["to"]["insts"]]
            case = {"kind": "path", "bases": bases, "path": list(hist), "inst_basis": inst_basis}
            st, obs = util.call(real.do, a)
            nontriv = a["name"] in ("Count", "OfLength", "Member", "Enumeration", "IsSubclass") and len(hist) > 2
            ctx.case((label, idx), nontrivial=nontriv)
            if st == "raise":
                ctx.violation(case, "NoException", e["reply"], {"raised": obs})
                break
            if not judge_reply(ctx, bases, real, a, e["reply"], obs, case):
                break
            want = states.get(tour.key(e["to"]))
            if want is not None:
                got = real.project()
                if got != want:
                    ctx.drift("%s: cache projection after %s differs from the model (levels/spots/compaction)" % (label, hist[-3:]))
        ctx.traces += 1
    if len(ctx.samples) < 3:
        ctx.sample({"machine": "C02_AvCache", "bases": bases, "edge": edges[len(edges) // 2]})
    return len(edges), names


# ---- code -> spec: random histories --------------------------------------------------------
def random_history(rnd, bases, real, maxlen, steps):
    ev = [{"op": "Reset"}]
    real.reset()
    for _ in range(steps):
        r = rnd.random()
        ni = len(real.insts)
        if ni == 0 or (r < 0.12 and ni < 3):
            b = rnd.randint(1, len(bases))
            res = real.do({"name": "NewAv", "n": b, "i": 0})
            ev.append({"op": "NewAv", "b": b, "res": res["inst"]})
        elif r < 0.16:
            real.do({"name": "ClearCache", "i": 0})
            ev.append({"op": "ClearCache"})
        elif r < 0.45 and real.its:
            t = rnd.randrange(len(real.its))
            if getattr(real, "it_len", {}).get(id(real.its[t]), 0) >= maxlen:
                continue              # a generator that reached the longest explored length is left suspended
            try:
                q = next(real.its[t])
                real.it_len = getattr(real, "it_len", {})
                real.it_len[id(real.its[t])] = len(q)
                ev.append({"op": "NextIt", "t": t + 1, "stop": False, "q": list(q)})
            except StopIteration:
                real.its.pop(t)
                ev.append({"op": "NextIt", "t": t + 1, "stop": True, "q": []})
        else:
            i = rnd.randint(1, ni)
            av = real.insts[i - 1]
            n = rnd.randint(0, maxlen)
            kind = rnd.choice(["Count", "OfLength", "Enumeration", "Member", "Member", "IsSubclass", "OpenOf", "OpenUpTo", "OpenFirst"])
            if kind == "Count":
                ev.append({"op": "Count", "i": i, "n": n, "res": av.count(n)})
            elif kind == "OfLength":
                ev.append({"op": "OfLength", "i": i, "n": n, "res": [list(p) for p in av.of_length(n)]})
            elif kind == "Enumeration":
                ev.append({"op": "Enumeration", "i": i, "n": n, "res": list(av.enumeration(n))})
            elif kind == "Member":
                q = util.rand_perm(rnd, n)
                ev.append({"op": "Member", "i": i, "q": list(q), "res": Perm(q) in av})
            elif kind == "IsSubclass":
                j = rnd.randint(1, ni)
                if bases[real.inst_b[j - 1] - 1]["mesh"] or bases[real.inst_b[i - 1] - 1]["mesh"]:
                    continue          # a mesh basis on either side: judged in the tours (bounded ideal / known finding)
                ev.append({"op": "IsSubclass", "i": i, "j": j, "res": av.is_subclass(real.insts[j - 1])})
            elif len(real.its) < 2:
                if kind == "OpenOf":
                    real.its.append(av.of_length(n))
                    ev.append({"op": "OpenOf", "i": i, "n": n})
                elif kind == "OpenUpTo":
                    real.its.append(iter(av.up_to_length(n)))
                    ev.append({"op": "OpenUpTo", "i": i, "n": n})
                else:
                    c = rnd.randint(0, 9)
                    real.its.append(iter(av.first(c)))
                    ev.append({"op": "OpenFirst", "i": i, "n": c})
            else:
                continue
        ev[-1]["proj"] = real.proj_small()
    return ev


def interrupted_call(fn, at):
    """Run fn(); a KeyboardInterrupt is raised at the at-th line executed inside permuta/perm_sets/permset.py (the class's
    own code, where its tables are changed).  Returns ("done", value) when fn finished first, ("interrupted", None) otherwise."""
    import sys
    seen = [0]

    def local(frame, event, arg):
        if event == "line":
            seen[0] += 1
            if seen[0] >= at and not util._with_line(frame):
                seen[0] = -10 ** 9
                raise KeyboardInterrupt("injected at line %d of %s" % (frame.f_lineno, frame.f_code.co_name))
        return local

    def tracer(frame, event, arg):
        fn_ = frame.f_code.co_filename.replace("\\", "/")
        return local if fn_.endswith("perm_sets/permset.py") else None
    old = sys.gettrace()
    sys.settrace(tracer)
    try:
        return "done", fn()
    except KeyboardInterrupt:
        return "interrupted", None
    finally:
        sys.settrace(old)


INTERRUPT_AT = [1, 2, 3, 5, 8, 13, 21, 34, 55, 89, 144, 233, 377, 610, 987, 1597, 2584]


def interrupt_history(rnd, bases, real, maxlen, steps):
    """A history in which some calls are interrupted (KeyboardInterrupt inside the class's code) and the caller goes on
    with the same objects: the recorded event says how many levels the interrupted call left; every later reply is
    judged as usual."""
    ev = [{"op": "Reset"}]
    real.reset()
    ninter = 0
    for _ in range(steps):
        ni = len(real.insts)
        r = rnd.random()
        if ni == 0 or (r < 0.1 and ni < 2):
            b = rnd.randint(1, len(bases))
            res = real.do({"name": "NewAv", "n": b, "i": 0})
            ev.append({"op": "NewAv", "b": b, "res": res["inst"]})
        else:
            i = rnd.randint(1, ni)
            av = real.insts[i - 1]
            n = rnd.randint(0, maxlen)
            kind = rnd.choice(["Count", "OfLength", "Member", "Enumeration"])
            q = util.rand_perm(rnd, n)
            call = {"Count": lambda: av.count(n), "OfLength": lambda: [list(p) for p in av.of_length(n)],
                    "Member": lambda: Perm(q) in av, "Enumeration": lambda: list(av.enumeration(n))}[kind]
            if r < 0.55 and len(av.cache) <= n:
                st, got = interrupted_call(call, rnd.choice(INTERRUPT_AT))
            else:
                st, got = "done", call()
            if st == "interrupted":
                ninter += 1
                ev.append({"op": "Interrupted", "i": i, "n": n, "top": len(av.cache) - 1})
            elif kind == "Member":
                ev.append({"op": "Member", "i": i, "q": list(q), "res": got})
            else:
                ev.append({"op": kind, "i": i, "n": n, "res": got})
        ev[-1]["proj"] = real.proj_small()
    return ev, ninter


def long_member_events(ctx, rnd, quick):
    """`q in Av(B)` for q of a thousand entries on a class object that has built nothing yet (a cold jump of a thousand
    levels); bases of patterns of length 2, or answers witnessed by an early occurrence, so that TLC decides them by the
    definition (PContainsQ).  Returns (bases, events)."""
    bases = [classical((1, 0)), classical((0, 1)), classical((0, 1, 2), (1, 0)), classical((0, 1), (2, 1, 0))]
    n = 1040 if quick else 1500
    inc, dec = list(range(n)), list(range(n - 1, -1, -1))
    swapped = inc[:-2] + [n - 1, n - 2]
    qs = [(1, inc), (2, dec), (1, swapped), (3, inc), (4, dec), (2, inc[:n // 2]), (1, inc + [n])]
    events = [{"op": "Reset"}]
    Av.clear_cache()
    for b, q in qs:
        Av.clear_cache()
        av = make_av(bases[b - 1], rnd.randrange(4))
        st, got = util.call(lambda: Perm(q) in av)
        events.append({"op": "LongMember", "b": b, "q": q, "raised": st != "ok", "res": bool(got) if st == "ok" else False,
                       "detail": "" if st == "ok" else str(got)[:80], "proj": []})
        ctx.case(("long-member", b, len(q), q[-1]), nontrivial=True)
    Av.clear_cache()
    return bases, events


def deep_level_groups(ctx, rnd, quick):
    """Slowly growing classes (two classical patterns, a few hundred members at length 8-9) listed up to length 12 (13):
    every level step is handed to TLC in slices (LevelStep / LevelSound).  Returns [(bases, events)]."""
    s3, s4 = util.perms_of(3), util.perms_of(4)
    chosen = [classical((0, 2, 1), (3, 2, 1, 0))]
    tries = 0
    while len(chosen) < (2 if quick else 8) and tries < 200:
        tries += 1
        b = classical(rnd.choice(s3), rnd.choice(s4))
        if b in chosen or contains(b["elems"][1], b["elems"][0]):
            continue
        Av.clear_cache()
        c8 = make_av(b, tries).count(8)
        if 40 <= c8 <= 260:                      # neither finite-and-empty nor exponential (the choice only selects inputs)
            chosen.append(b)
    top = 12 if quick else 13
    groups = []
    for b in chosen:
        Av.clear_cache()
        av = make_av(b, 1)
        st, levels = util.call(lambda: [sorted(tuple(p) for p in av.of_length(n)) for n in range(top + 1)])
        if st == "raise":
            ctx.violation({"kind": "deep levels", "basis": b}, "NoException", "levels 0..%d" % top, levels)
            continue
        events = [{"op": "Reset"}]
        for n in range(6, top):
            prev, nxt = [list(p) for p in levels[n]], [list(p) for p in levels[n + 1]]
            nsl = max(1, len(prev) * (n + 1) // 1500)
            for k in range(nsl):
                events.append({"op": "LevelStep", "b": 1, "n": n, "prev": prev[k::nsl], "next": nxt, "proj": []})
            msl = max(1, len(nxt) // 400)
            for k in range(msl):
                events.append({"op": "LevelSound", "b": 1, "n": n + 1, "members": nxt[k::msl], "proj": []})
        events.append({"op": "LevelSound", "b": 1, "n": 6, "members": [list(p) for p in levels[6]], "proj": []})
        ctx.case(("deep", json.dumps(b["elems"])), nontrivial=True, n=sum(len(x) for x in levels))
        # several validation jobs per class, so that the slices are judged side by side
        body = events[1:]
        for k in range(0, len(body), 6):
            groups.append(([b], [{"op": "Reset"}] + body[k:k + 6]))
    Av.clear_cache()
    ctx.note("deep_levels", {"classes": [b["elems"] for b in chosen], "up_to_length": top, "validation_jobs": len(groups)})
    return groups


def dbg(msg):
    import os, sys, time
    if os.environ.get("VERIF_DEBUG"):
        print("[%s] %s" % (time.strftime("%H:%M:%S"), msg), file=sys.stderr, flush=True)


def weak_hash_events(ctx):
    """Run in the weak-hash interpreter (harness/weakhash.py): random histories on classes whose bases - the keys of the class
    registry - and members share a few hash values."""
    rnd = util.rng(ctx, 222)
    cl = antichains(rnd, True)
    ms = mesh_bases(rnd, True)
    groups = []
    for g in range(2):
        bs = [rnd.choice(cl), rnd.choice(cl), rnd.choice(ms)]
        while bs[1] == bs[0]:
            bs[1] = rnd.choice(cl)
        real = Real(bs)
        events = []
        for _ in range(8):
            events += random_history(rnd, bs, real, 5, 25)
        groups.append({"bases": bs, "events": events})
    return groups


def run(ctx):
    quick = ctx.tier == "quick"
    rnd = util.rng(ctx, 2)
    weak = util.weak_hash_start(ctx, "c02", "weak_hash_events")
    cl = antichains(rnd, quick)
    ms = mesh_bases(rnd, quick)
    ctx.note("bases", {"classical": len(cl), "mesh": len(ms)})
    # ---- mechanism tours: one basis per graph, several bases per TLC run ---------------------
    maxlen = 5 if quick else 6
    jobs, meta = [], []
    per = 4 if quick else 3
    allb = cl + ms
    for i in range(0, len(allb), per):
        chunk = allb[i:i + per]
        jobs.append(run_tours(ctx, chunk, OPS_MECH, maxlen, 1, "mech"))
        meta.append(("mech", chunk))
    # ---- class-cache tours: pairs of bases, several instances, clear_cache, is_subclass -------
    pairs = [(classical((0, 1, 2)), classical((0, 2, 1))), (classical((1, 0)), classical((0, 1), (2, 1, 0))),
             (classical((0, 2, 1)), ms[5]), (ms[6], classical((1, 0))), (ms[4], classical((0, 1, 2))),
             (classical((1, 2, 0), (2, 0, 1)), classical((2, 0, 1)))]
    if quick:
        pairs = [pairs[0], pairs[2], pairs[3]]
    else:
        pairs += [(rnd.choice(cl), rnd.choice(cl + ms)) for _ in range(10)]
    for a, b in pairs:
        if a == b:
            continue
        jobs.append(run_tours(ctx, [a, b], OPS_CACHE, 2 if quick else 3, 3, "cache"))
        meta.append(("cache", [a, b]))
    import time as _t
    t0 = _t.time()
    dbg("starting %d TLC jobs" % len(jobs))
    results = tlc.run_many(jobs, parallel=16)
    dbg("TLC jobs done")
    ctx.note("t_tlc_tours", round(_t.time() - t0, 1))
    t0 = _t.time()
    nedges = 0
    seen = set()
    for (label, chunk), res in zip(meta, results):
        ctx.add_tlc(res, "%s graph over %d bases" % (label, len(chunk)))
        n, names = replay_graph(ctx, chunk, res, label)
        nedges += n
        seen |= names
    need = {"NewAv", "Count", "OfLength", "Enumeration", "Member", "ClearCache", "IsSubclass"}
    if not need <= seen:
        raise tlc.MachineryFailure("C02: actions never taken: %s" % sorted(need - seen))
    ctx.exhaustive = True
    ctx.note("t_replay_tours", round(_t.time() - t0, 1))
    ctx.note("edges_replayed", nedges)

    dbg("tours replayed")
    # ---- iterator interleavings in the model (all of them, small universe) ---------------------
    mod = util.mc_module("MC_C02", "C02_AvCache", {"BasesDef": "<< %s >>" % tla_basis(classical((0, 2, 1))),
                                                     "OpsDef": '{"NewAv", "Count", "Iter"}'})
    k = {"Bases": ("<-", "BasesDef"), "Ops": ("<-", "OpsDef"), "MaxLen": 3, "MaxInst": 1, "MaxIts": 2 if quick else 2}
    res = tlc.run_tlc("MC_C02", util.cfg(init="Init", next_="Next", invariants=INVS, view="View", constants=k),
                      workers=8, files={"MC_C02.tla": mod}, timeout=3000)
    ctx.add_tlc(res, "iterator interleavings (model)")

    # ---- interrupted calls in the model: every level and every subset of extended members, then the wrong design ------
    imod = util.mc_module("MC_C02", "C02_AvCache", {"BasesDef": "<< %s, %s >>" % (tla_basis(classical((0, 2, 1))), tla_basis(classical((0, 1), (2, 1, 0)))),
                                                      "OpsDef": '{"NewAv", "Count", "Member", "Interrupt"}',
                                                      "BadOpsDef": '{"NewAv", "Count", "Member", "Interrupt", "InterruptEarlyAppend"}'})
    k = {"Bases": ("<-", "BasesDef"), "Ops": ("<-", "OpsDef"), "MaxLen": 3 if quick else 4, "MaxInst": 1, "MaxIts": 0}
    ires, bres, sres = tlc.run_many([
        ("MC_C02", util.cfg(init="Init", next_="Next", invariants=INVS, constants=k), {"files": {"MC_C02.tla": imod}, "timeout": 3000, "workers": 6}),
        ("MC_C02", util.cfg(init="Init", next_="Next", invariants=INVS, constants=dict(k, Ops=("<-", "BadOpsDef"))),
         {"files": {"MC_C02.tla": imod}, "timeout": 3000, "workers": 4, "allow_violation": True}),
        ("LibSanity", util.cfg(init="Init", next_="Next"), {"timeout": 1500, "workers": 4})], parallel=3)
    ctx.add_tlc(ires, "interrupted calls (model): replies after an abandoned build are those of the definition")
    ctx.add_tlc(bres, "wrong design: level registered before it is filled (must be refuted)")
    ctx.add_tlc(sres, "LibSanity: the definitional library against second characterisations")
    if bres.violated not in ("LevelsExact", "ReplyCorrect"):
        raise tlc.MachineryFailure("C02 model vacuous: registering the level before filling it was not refuted (%s)" % bres.violated)
    ctx.note("early_append_refuted_by_model", bres.violated)

    dbg("iterator model done")
    # ---- code -> spec: random histories validated by Trace_C02 ----------------------------------
    nh = 40 if quick else 400
    tmax = 5 if quick else 6
    groups = []
    for g in range(4 if quick else 16):
        bs = [rnd.choice(cl) for _ in range(2)] + [rnd.choice(ms)]
        if rnd.random() < 0.5:
            bs[1] = classical((0, 1, 2, 3)) if g % 2 else classical((0, 2, 1), (2, 0, 1, 3))
        while bs[1] == bs[0]:                  # the model's Bases must be pairwise distinct (equal bases share an object)
            bs[1] = rnd.choice(cl)
        real = Real(bs)
        events = []
        for _ in range(nh // (4 if quick else 16)):
            events += random_history(rnd, bs, real, tmax, 30)
        groups.append((bs, events))
    ninter = 0
    for g in range(2 if quick else 8):
        bs = [rnd.choice(cl), rnd.choice(cl), rnd.choice(ms)]
        while bs[1] == bs[0]:
            bs[1] = rnd.choice(cl)
        real = Real(bs)
        events = []
        for _ in range(6 if quick else 12):
            e, k_ = interrupt_history(rnd, bs, real, tmax, 14)
            events += e
            ninter += k_
        groups.append((bs, events))
    ctx.note("interrupted_calls_in_histories", ninter)
    if ninter == 0:
        ctx.drift("no call could be interrupted inside permuta/perm_sets/permset.py (file moved?): interrupted histories not exercised")
    groups.append(long_member_events(ctx, rnd, quick))
    groups += deep_level_groups(ctx, rnd, quick)
    for doc in util.weak_hash_finish(ctx, weak, "c02"):
        bs = doc["bases"]
        for b in bs:          # (JSON turned the tuples into lists)
            b["elems"] = [tuple(e) if not b["mesh"] else (tuple(e[0]), tuple(map(tuple, e[1]))) for e in b["elems"]]
        groups.append((bs, doc["events"]))
    dbg("histories recorded")
    def validate_group(g):
        bs, events = g
        mod = util.mc_module("MC_T02", "Trace_C02", {"BasesDef": "<< " + ", ".join(tla_basis(b) for b in bs) + " >>", "OpsDef": OPS_ALL})
        k = {"Bases": ("<-", "BasesDef"), "Ops": ("<-", "OpsDef"), "MaxLen": tmax + 1, "MaxInst": 9, "MaxIts": 9}
        return validate(ctx, events, mod, k)
    import concurrent.futures
    with concurrent.futures.ThreadPoolExecutor(max_workers=14) as ex:
        verdicts = list(ex.map(validate_group, groups))
    dbg("histories validated")
    for (bs, events), v in zip(groups, verdicts):
        ctx.case(n=len(events))
        first_bad = {}
        for b in v["verdict"]:
            # report the first disagreement of each history only (later ones may be consequences)
            start = max(i for i in range(b["i"]) if events[i]["op"] == "Reset")
            if start in first_bad:
                continue
            first_bad[start] = b
            ctx.violation({"kind": "history", "bases": bs, "history": events[start:b["i"]]}, b["clause"],
                          "reply of the model action (see Trace_C02)", events[b["i"] - 1])
        for i in v["drift"][:2]:
            ctx.drift("recorded projection at event %d (%s) differs from the model" % (i, events[i - 1]["op"]))
    ctx.sample({"machine": "Trace_C02", "bases": groups[0][0], "events": groups[0][1][:6]})
    ctx.rule = ("TLC explores the Av cache machine (levels, spots, compaction, class cache) for every basis of the universe; "
                "a transition tour covers every (mechanism state, call) edge on real Av objects built through varying "
                "constructors; non-trivial = a query made after at least two earlier calls; plus random histories with "
                "open iterators validated by Trace_C02; histories in which calls are interrupted by a KeyboardInterrupt inside the "
                "class's code and the caller goes on (model: action Interrupted, every level and every subset of extended members; "
                "the design that registers a level before filling it is refuted); membership of permutations of a thousand entries "
                "on fresh class objects judged by the definition; levels 7-12 of slowly growing classes checked step by step "
                "(every avoiding extension of a member of level n by a last entry is a listed member of level n+1, listed members are "
                "distinct avoiders); random histories recorded in an interpreter whose hashes collide")


import threading
_ACCOUNT = threading.Lock()


def validate(ctx, events, mod, k):
    import os
    import tempfile
    fd, path = tempfile.mkstemp(prefix="verif-trace-", suffix=".json")
    try:
        with os.fdopen(fd, "w") as fh:
            json.dump(events, fh)
        c = util.cfg(init="TInit", next_="TNext", constants=k, invariants=INVS + ["TraceDone"])
        res = tlc.run_tlc("MC_T02", c, workers=1, timeout=3000, env={"TRACE_FILE": path}, files={"MC_T02.tla": mod})
    finally:
        os.unlink(path)
    with _ACCOUNT:
        ctx.add_tlc(res, "trace validation")
    done = [r for r in res.records if isinstance(r, dict) and "verdict" in r]
    if len(done) != 1 or done[0]["n"] != len(events):
        stuck = events[res.distinct - 1] if 0 < res.distinct <= len(events) else None
        raise tlc.MachineryFailure("Trace_C02: trace not fully consumed; no action of the trace spec was enabled for event %d: %s "
                                   "(preceded by %s)" % (res.distinct, stuck, events[max(0, res.distinct - 4):res.distinct - 1]))
    with _ACCOUNT:
        ctx.traces += sum(1 for e in events if e["op"] == "Reset")
    return done[0]


def replay(ctx, path):
    rec = json.load(open(path))
    case = rec["case"]
    bs = case["bases"]
    for b in bs:
        b["elems"] = [tuple(e) if not b["mesh"] else (tuple(e[0]), tuple(map(tuple, e[1]))) for e in b["elems"]]
    real = Real(bs)
    events = [{"op": "Reset"}]
    if case["kind"] == "path":
        for a in case["path"]:
            obs = real.do(a)
            n = a["name"]
            if n == "NewAv":
                events.append({"op": "NewAv", "b": a["n"], "res": obs["inst"]})
            elif n == "ClearCache":
                events.append({"op": "ClearCache"})
            elif n == "Count":
                events.append({"op": "Count", "i": a["i"], "n": a["n"], "res": obs["n"]})
            elif n == "OfLength":
                events.append({"op": "OfLength", "i": a["i"], "n": a["n"], "res": obs["list"]})
            elif n == "Enumeration":
                events.append({"op": "Enumeration", "i": a["i"], "n": a["n"], "res": obs["seq"]})
            elif n == "Member":
                events.append({"op": "Member", "i": a["i"], "q": a["q"], "res": obs["flag"]})
            elif n == "IsSubclass":
                events.append({"op": "IsSubclass", "i": a["i"], "j": a["n"], "res": obs["flag"]})
            events[-1]["proj"] = real.proj_small()
    else:
        raise tlc.MachineryFailure("random histories are replayed by re-running the check with the same VERIF_SEED")
    mod = util.mc_module("MC_T02", "Trace_C02", {"BasesDef": "<< " + ", ".join(tla_basis(b) for b in bs) + " >>", "OpsDef": OPS_ALL})
    k = {"Bases": ("<-", "BasesDef"), "Ops": ("<-", "OpsDef"), "MaxLen": 6, "MaxInst": 9, "MaxIts": 9}
    v = validate(ctx, events, mod, k)
    if v["verdict"]:
        print("VIOLATION property=C02 replay=%s" % path)
        print("  still failing: %s" % v["verdict"])
        return 1
    print("replay: case passes on the current tree")
    return 0
