"""C01 - classical occurrences, containment and counts; independence of memo history.

spec -> code : every state of C01_Search (INIT InitInputs) = one (pattern, permutation) with the
               listing by definition; every edge of the history configuration (memo unbound/bound).
code -> spec : random histories on reused pattern objects, multi-pattern predicates, coloured
               occurrences, validated by Trace_C01.
"""
import itertools

from permuta import Perm

from harness import tlc, util

INVS = ["TypeOK", "ReplyIsListing", "EmptyPatternOnce", "ColoursOnlyRestrict", "TooLongNever", "MemoWellFormed",
        "Monotone", "ItersIndependent"]


def observe(p, q):
    """All entry points the property says must agree, on fresh or given objects."""
    P, Q = p, q
    occ = [list(t) for t in P.occurrences_in(Q)]
    return {
        "occurrences_in": occ,
        "occurrences_of": [list(t) for t in Q.occurrences_of(P)],
        "contains": Q.contains(P),
        "avoids": Q.avoids(P),
        "avoids_set": Q.avoids_set([P]),
        "in": P in Q,
        "count_occurrences_of": Q.count_occurrences_of(P),
        "count_occurrences_in": P.count_occurrences_in(Q),
        "contained_in": P.contained_in(Q),
        "avoided_by": P.avoided_by(Q),
    }


def expected_from(occ):
    n = len(occ)
    return {"occurrences_in": occ, "occurrences_of": occ, "contains": n > 0, "avoids": n == 0,
            "avoids_set": n == 0, "in": n > 0, "count_occurrences_of": n, "count_occurrences_in": n,
            "contained_in": n > 0, "avoided_by": n == 0}


def judge(ctx, p, q, occ, P=None, kind="state", Q=None):
    P = Perm(p) if P is None else P
    st, obs = util.call(observe, P, Perm(q) if Q is None else Q)
    exp = expected_from(occ)
    case = {"kind": kind, "p": list(p), "q": list(q)}
    ctx.case((tuple(p), tuple(q)), nontrivial=len(occ) > 0 and len(p) >= 2)
    if st == "raise":
        ctx.violation(case, "NoException", exp, {"raised": obs})
        return
    for k in exp:
        if obs[k] != exp[k]:
            ctx.violation(dict(case, entry=k), "ReplyIsListing" if k.startswith("occ") else "PredicatesAgree",
                          exp[k], obs[k])
            return


def weak_hash_events(ctx):
    """Run in the weak-hash interpreter (harness/weakhash.py): the hardening events, recorded where permutations share a few hash values."""
    ctx.tier = "quick"
    return [e for e in hardening_events(ctx, True) if e["op"] != "LongPred"]


def run(ctx):
    quick = ctx.tier == "quick"
    weak = util.weak_hash_start(ctx, "c01", "weak_hash_events")
    maxpatt, maxperm = (3, 6) if quick else (4, 7)
    nsh = 8 if quick else 16
    # ---- 1. exhaustive input universe, sharded -----------------------------------
    jobs = []
    for s in range(nsh):
        c = util.cfg(init="InitInputs", next_="Stutter", invariants=INVS + ["EmitState"],
                     constants={"MinPatt": 0, "MaxPatt": maxpatt, "MinPerm": 0, "MaxPerm": maxperm,
                                "Shard": s, "NShards": nsh, "Colours": "{0, 1}"})
        jobs.append(("C01_Search", c, {"workers": 1, "timeout": 3000}))
    results = tlc.run_many(jobs, parallel=min(nsh, 16))
    reused = {}
    nstates = 0
    for r in results:
        ctx.add_tlc(r, "input universe shard")
        for rec in r.records:
            nstates += 1
            p, q, occ = tuple(rec["p"]), tuple(rec["q"]), rec["occ"]
            judge(ctx, p, q, occ)                                   # fresh objects
            P = reused.setdefault(p, Perm(p))                       # one long-lived object per pattern
            judge(ctx, p, q, occ, P=P, kind="state-reused")
            tab = [list(x) for x in (P._cached_pattern_details or [])] if hasattr(P, "_cached_pattern_details") else None
            if tab is not None and len(p) > 0 and len(p) <= len(q) and tab != rec["tab"]:
                ctx.drift("memo table of %s is %s, model says %s" % (p, tab, rec["tab"]))
            if nstates % 977 == 0:
                ctx.sample({"machine": "C01_Search", "state": rec})
    import math
    expect_states = sum(math.factorial(k) for k in range(maxpatt + 1)) * sum(math.factorial(k) for k in range(maxperm + 1))
    if nstates != expect_states:
        raise tlc.MachineryFailure("C01: emitted %d states, universe has %d" % (nstates, expect_states))
    ctx.exhaustive = True
    ctx.note("tlc_range", "patterns of length <= %d x permutations of length <= %d, every pair" % (maxpatt, maxperm))

    # ---- 2. history configuration: every (memo state, call) edge -------------------
    hperm = 3 if quick else 4
    c = util.cfg(init="InitHist", next_="NextHist", invariants=INVS, view="HistView",
                 action_constraints=["EmitEdge"],
                 constants={"MinPatt": 0, "MaxPatt": 3, "MinPerm": 0, "MaxPerm": hperm, "Shard": 0, "NShards": 1,
                            "Colours": "{0, 1}"})
    r = tlc.run_tlc("C01_Search", c, workers=1, coverage=True)
    ctx.add_tlc(r, "history edges")
    acts = {"Search": 0, "Fresh": 0, "SearchCol": 0, "SearchedIn": 0}
    bound_obj = {}
    unbound_used = {}
    for e in r.records:
        acts[e["act"]] += 1
        p = tuple(e["p"])
        if e["act"] == "Fresh":
            bound_obj.pop(p, None)
            continue
        if e["frombound"]:
            P = bound_obj.get(p)
            if P is None:                       # bring an object into the 'bound' state first
                P = Perm(p)
                list(P.occurrences_in(Perm(tuple(range(len(p) + 1)))))
                list(P.occurrences_in(Perm(p)))
                bound_obj[p] = P
        else:
            # an object that has only been searched *in* so far has bound nothing: it serves as the unbound object
            P = unbound_used.pop(p, None) or Perm(p)
        kind = "edge-from-%s" % ("bound" if e["frombound"] else "unbound")
        if e["act"] == "SearchCol":
            cp, cq = e["cols"]
            st, got = util.call(lambda: [list(t) for t in P.occurrences_in(Perm(e["q"]), list(cp), list(cq))])
            ctx.case(("col", p, tuple(e["q"]), tuple(cp), tuple(cq), e["frombound"]), nontrivial=len(e["occ"]) > 0)
            if st == "raise" or got != e["occ"]:
                ctx.violation({"kind": kind, "p": list(p), "q": e["q"], "cp": cp, "cq": cq}, "ColouredOccurrences", e["occ"], got)
            bound_obj[p] = P
            continue
        if e["act"] == "SearchedIn":           # the object is the permutation: e["q"] is the pattern searched in it
            judge(ctx, tuple(e["q"]), p, e["occ"], Q=P, kind=kind + "-as-permutation")
            if e["frombound"]:
                bound_obj[p] = P               # stays what it was: being searched in binds nothing
            else:
                unbound_used[p] = P
            continue
        judge(ctx, p, tuple(e["q"]), e["occ"], P=P, kind=kind)
        bound_obj[p] = P          # whatever it was searched with (also coloured), it is now 'bound'
    if min(acts.values()) == 0:
        raise tlc.MachineryFailure("C01 history configuration vacuous: %s" % acts)
    ctx.note("history_edges", acts)

    # ---- 2b. the lazy-iterator protocol: every interleaving of two open searches (model only;
    #          the real interleavings are recorded below and validated against these actions)
    c = util.cfg(init="InitHist", next_="NextIter", invariants=INVS,
                 constants={"MinPatt": 1, "MaxPatt": 2, "MinPerm": 2, "MaxPerm": 3, "Shard": 0, "NShards": 1,
                            "Colours": "{0, 1}"})
    r = tlc.run_tlc("C01_Search", c, workers=4, coverage=False)
    ctx.add_tlc(r, "iterator interleavings (model)")

    # ---- 2c. statement level: the pruned backtracking search as a stack machine ---------------
    #      TLC checks the design (sound, ordered, prefix order-isomorphic, complete, terminating) and must
    #      refute the off-by-one cut; the real search is traced (sys.settrace, calls of the nested function)
    #      and its sequence of (i, k) frames is compared with the machine's pushes (drift only).
    bt_perm = 4 if quick else 5
    bjobs = []
    for sh in range(4):
        k = {"MinPatt": 0, "MaxPatt": 3, "MinPerm": 0, "MaxPerm": bt_perm, "Shard": sh, "NShards": 4, "CutSlack": 0}
        bjobs.append(("C01_Backtrack", util.cfg(spec="Spec", invariants=["Sound", "LexOrdered", "PrefixIsOccurrence", "Nested", "Complete", "EmitDone"],
                                                 properties=["Terminates"], constants=k), {"workers": 2, "timeout": 3000}))
    k = {"MinPatt": 1, "MaxPatt": 2, "MinPerm": 1, "MaxPerm": 3, "Shard": 0, "NShards": 1, "CutSlack": 1}
    bjobs.append(("C01_Backtrack", util.cfg(spec="Spec", invariants=["Complete"], constants=k), {"workers": 2, "timeout": 3000, "allow_violation": True}))
    bres = tlc.run_many(bjobs, parallel=5)
    if bres[-1].violated != "Complete":
        raise tlc.MachineryFailure("C01_Backtrack vacuous: the off-by-one cut was not refuted")
    ctx.add_tlc(bres[-1], "backtracking machine, off-by-one cut (refuted)")
    import sys as _sys
    nfr = 0
    for r in bres[:-1]:
        ctx.add_tlc(r, "backtracking machine")
        for rec in r.records:
            frames = []
            seen_frames = []          # generator frames are re-entered on every next(): count each frame once

            def tracer(frame, event, arg):
                if event == "call" and frame.f_code.co_name == "occurrences" and frame.f_code.co_filename.endswith("perm.py"):
                    if not any(f is frame for f in seen_frames):
                        seen_frames.append(frame)
                        frames.append([frame.f_locals.get("i"), frame.f_locals.get("k")])
                return None
            P, Q = Perm(rec["p"]), Perm(rec["q"])
            _sys.settrace(tracer)
            try:
                got = [list(t) for t in P.occurrences_in(Q)]
            finally:
                _sys.settrace(None)
            nfr += 1
            ctx.case(("bt", tuple(rec["p"]), tuple(rec["q"])), nontrivial=len(rec["pushes"]) > 1)
            if got != rec["out"]:
                ctx.violation({"kind": "state", "p": rec["p"], "q": rec["q"]}, "ReplyIsListing", rec["out"], got)
            if frames and frames != rec["pushes"]:
                ctx.drift("search frames for %s in %s are %s, the machine pushes %s" % (rec["p"], rec["q"], frames[:8], rec["pushes"][:8]))
    ctx.note("backtracking_runs_traced", nfr)

    # ---- 3. code -> spec: recorded executions validated by Trace_C01 ----------------
    rnd = util.rng(ctx, 1)
    events = []
    ntr = 60 if quick else 400
    maxq = 7 if quick else 8
    for _ in range(ntr):
        k = rnd.choice([0, 1, 2, 2, 3, 3, 3, 4, 4])
        p = util.rand_perm(rnd, k)
        P = Perm(p)
        events.append({"op": "New", "p": list(p)})
        for _ in range(rnd.randint(1, 8)):
            n = rnd.randint(0, maxq)
            q = util.rand_perm(rnd, n)
            if rnd.random() < 0.4:
                cp = [rnd.randint(0, 1) for _ in p]
                cq = [rnd.randint(0, 1) for _ in q]
                res = [list(t) for t in P.occurrences_in(Perm(q), cp, cq)]
                events.append({"op": "SearchCol", "q": list(q), "cp": cp, "cq": cq, "res": res})
                continue
            res = [list(t) for t in P.occurrences_in(Perm(q))]
            events.append({"op": "Search", "q": list(q), "res": res, "tabok": True})
        # two or three lazy searches on the same object, advanced in a random interleaving
        if rnd.random() < 0.6 and len(p) > 0:
            live = []
            for _ in range(rnd.randint(2, 3)):
                q = util.rand_perm(rnd, rnd.randint(len(p), min(maxq, len(p) + 3)))
                events.append({"op": "OpenIter", "q": list(q)})
                live.append((len(live) + 1, P.occurrences_in(Perm(q))))
            while live:
                j = rnd.randrange(len(live))
                i, it = live[j]
                try:
                    t = next(it)
                    events.append({"op": "StepIter", "it": i, "stop": False, "res": list(t)})
                except StopIteration:
                    events.append({"op": "StepIter", "it": i, "stop": True, "res": []})
                    live.pop(j)
                except Exception as e:  # pylint: disable=broad-except
                    ctx.violation({"kind": "iterator", "p": list(p)}, "NoException", "a tuple or StopIteration", type(e).__name__)
                    live.pop(j)
        # predicates with several patterns
        q = util.rand_perm(rnd, rnd.randint(0, maxq))
        ps = [util.rand_perm(rnd, rnd.choice([0, 1, 2, 3, 3, 4])) for _ in range(rnd.randint(1, 3))]
        Q = Perm(q)
        PS = [Perm(x) for x in ps]
        lps = [list(x) for x in ps]
        events.append({"op": "Pred", "kind": "contains", "q": list(q), "ps": lps, "res": Q.contains(*PS)})
        events.append({"op": "Pred", "kind": "avoids", "q": list(q), "ps": lps, "res": Q.avoids(*PS)})
        events.append({"op": "Pred", "kind": "avoids", "q": list(q), "ps": lps, "res": Q.avoids_set(iter(PS))})
        events.append({"op": "Pred", "kind": "count", "q": list(q), "ps": lps[:1], "res": Q.count_occurrences_of(PS[0])})
    # coloured occurrences: exhaustive over 2 colours for small sizes, random beyond
    ncol = 0
    for k in range(0, 3):
        for p in util.perms_of(k):
            for n in range(k, 4 if quick else 5):
                for q in util.perms_of(n):
                    for cp in itertools.product((0, 1), repeat=k):
                        for cq in itertools.product((0, 1), repeat=n):
                            if (ncol + len(q)) % (1 if n < 3 else 3) and quick:
                                ncol += 1
                                continue
                            ncol += 1
                            res = [list(t) for t in Perm(p).occurrences_in(Perm(q), colour_objects(cp, ncol, ncol), colour_objects(cq, ncol, ncol))]
                            events.append({"op": "Col", "p": list(p), "q": list(q), "cp": list(cp), "cq": list(cq), "res": res})
    nextra = len(events)
    events.extend(hardening_events(ctx, quick))
    events.extend(util.weak_hash_finish(ctx, weak, "c01"))
    ctx.note("hardening_events", len(events) - nextra)
    v = util.validate_trace(ctx, "Trace_C01", events, invariants=INVS,
                            constants={"MinPatt": 0, "MaxPatt": 0, "MinPerm": 0, "MaxPerm": 0, "Shard": 0, "NShards": 1, "Colours": "{0, 1}"},
                            ntraces=ntr + 1)
    ctx.case(n=len(events))
    ctx.sample({"machine": "Trace_C01", "events": events[:4]})
    for b in v["verdict"]:
        ev = events[b["i"] - 1]
        ctx.violation({"kind": "trace-event", "event": ev}, b["clause"], "value of the definition (see clause)", ev.get("res"))
    for i in v["drift"][:3]:
        ctx.drift("memo table in recorded event %s differs from PDetails" % events[i - 1])
    ctx.rule = ("TLC enumerates every (pattern, permutation) pair of the bounded universe with the listing by "
                "definition; each is replayed on fresh and on long-lived pattern objects through all ten entry "
                "points; non-trivial = pattern length >= 2 with at least one occurrence; plus recorded random "
                "histories/coloured searches validated by Trace_C01")


# ---- probes added in the hardening round: argument forms, roles, larger inputs, lazy objects, cold start ----
def _occ(P, Q):
    return [list(t) for t in P.occurrences_in(Q)]


def _std(seq):
    order = sorted(range(len(seq)), key=lambda i: seq[i])
    out = [0] * len(seq)
    for r, i in enumerate(order):
        out[i] = r
    return tuple(out)


# the ways an iterable of patterns can be handed to avoids_set (the expectation never depends on the form)
SET_FORMS = [
    ("list", list), ("tuple", tuple), ("iter", iter), ("genexpr", lambda ps: (p for p in ps)),
    ("map", lambda ps: map(lambda p: p, ps)), ("filter", lambda ps: filter(lambda p: True, ps)),
    ("set", set), ("frozenset", frozenset), ("reversed", lambda ps: reversed(list(ps))),
    ("repeated", lambda ps: list(ps) + list(ps)[:1] + list(ps)[-1:]),
    ("fresh-objects", lambda ps: map(Perm, [tuple(p) for p in ps])),
    ("dict-keys", lambda ps: dict.fromkeys(ps).keys()),
    ("chain", lambda ps: itertools.chain(list(ps)[:1], iter(list(ps)[1:]))),
]


def special_perm(rnd, n):
    """Structurally special longer permutations: monotone, layered, skew-layered, near-monotone, random."""
    kind = rnd.choice(["id", "dec", "layered", "skew", "swapends", "random", "random", "random"])
    if kind == "id":
        return tuple(range(n))
    if kind == "dec":
        return tuple(range(n - 1, -1, -1))
    if kind in ("layered", "skew"):
        out, start = [], 0
        while start < n:
            size = rnd.randint(1, min(4, n - start))
            out.extend(range(start + size - 1, start - 1, -1))
            start += size
        return tuple(out) if kind == "layered" else tuple(n - 1 - v for v in out)
    if kind == "swapends" and n > 0:
        out = list(range(n))
        out[0], out[-1] = out[-1], out[0]
        return tuple(out)
    return util.rand_perm(rnd, n)


def pattern_for(rnd, q, k):
    """A pattern of length k: mostly the standardisation of a subsequence of q (so it occurs), biased to use the
    boundary positions / extreme values of q; sometimes an arbitrary permutation."""
    n = len(q)
    if k > n or k == 0 or rnd.random() < 0.25:
        return util.rand_perm(rnd, k)
    forced = set()
    for cand in (0, n - 1, q.index(0), q.index(n - 1)):
        if rnd.random() < 0.4 and len(forced) < k:
            forced.add(cand)
    rest = [i for i in range(n) if i not in forced]
    rnd.shuffle(rest)
    idx = sorted(forced | set(rest[:k - len(forced)]))
    return _std([q[i] for i in idx])


def _cold_start_events(rnd, nproc):
    """Each subprocess makes one large query as the very first call of a fresh interpreter (nothing memoised
    anywhere yet), then repeats it through the other entry points."""
    import subprocess
    import sys
    import json as _json
    code = (
        "import json, sys\n"
        "from permuta import Perm\n"
        "job = json.loads(sys.argv[1])\n"
        "P, Q, PS = Perm(job['p']), Perm(job['q']), [Perm(x) for x in job['ps']]\n"
        "ev = []\n"
        "if job['first'] == 'listing':\n"
        "    ev.append({'op': 'New', 'p': job['p']})\n"
        "    ev.append({'op': 'Search', 'q': job['q'], 'res': [list(t) for t in P.occurrences_in(Q)], 'tabok': True})\n"
        "elif job['first'] == 'avoids_set':\n"
        "    ev.append({'op': 'Pred', 'kind': 'avoids', 'q': job['q'], 'ps': job['ps'], 'res': Q.avoids_set(x for x in PS)})\n"
        "elif job['first'] == 'count':\n"
        "    ev.append({'op': 'Pred', 'kind': 'count', 'q': job['q'], 'ps': [job['p']], 'res': Q.count_occurrences_of(P)})\n"
        "else:\n"
        "    ev.append({'op': 'Pred', 'kind': 'contains', 'q': job['q'], 'ps': job['ps'], 'res': Q.contains(*PS)})\n"
        "ev.append({'op': 'New', 'p': job['p']})\n"
        "ev.append({'op': 'Search', 'q': job['q'], 'res': [list(t) for t in P.occurrences_in(Q)], 'tabok': True})\n"
        "ev.append({'op': 'Pred', 'kind': 'count', 'q': job['q'], 'ps': [job['p']], 'res': P.count_occurrences_in(Q)})\n"
        "ev.append({'op': 'Pred', 'kind': 'contains', 'q': job['q'], 'ps': job['ps'], 'res': Q.contains(*PS)})\n"
        "ev.append({'op': 'Pred', 'kind': 'avoids', 'q': job['q'], 'ps': job['ps'], 'res': Q.avoids(*PS)})\n"
        "ev.append({'op': 'Pred', 'kind': 'avoids', 'q': job['q'], 'ps': job['ps'], 'res': Q.avoids_set(iter(PS))})\n"
        "print(json.dumps(ev))\n")
    procs = []
    for i in range(nproc):
        q = special_perm(rnd, rnd.randint(8, 10))
        p = pattern_for(rnd, q, rnd.choice([4, 5]))
        ps = [list(p)] + [list(pattern_for(rnd, q, rnd.choice([3, 4, 5]))) for _ in range(rnd.randint(0, 2))]
        job = {"p": list(p), "q": list(q), "ps": ps, "first": ["listing", "avoids_set", "count", "contains"][i % 4]}
        procs.append(subprocess.Popen([sys.executable, "-c", code, _json.dumps(job)], stdout=subprocess.PIPE,
                                      stderr=subprocess.PIPE, text=True))
    out = []
    for pr in procs:
        so, se = pr.communicate(timeout=300)
        if pr.returncode != 0:
            raise tlc.MachineryFailure("C01 cold-start subprocess failed:\n" + se[-1500:])
        out.extend(_json.loads(so))
    return out


KNOWN_SITE = "Perm.occurrences_in with a pattern of more entries than the interpreter's recursion limit allows"
KNOWN_DEV = "RecursionDepthIsPatternLength"


def colour_objects(labels, kind, salt):
    """The colouring with labels 0 / 1 written with objects of another kind.  Every entry is a freshly made object: equal
    colours of the pattern and of the permutation are equal values, never the same object (colours are compared by ==)."""
    kind %= 7
    if kind == 0:
        return [int(str(10 ** 6 + c)) for c in labels]                    # integers outside the interpreter's small-int cache
    if kind == 1:
        return [(c, "x" * (salt % 3 + 1)) for c in labels]                # tuples
    if kind == 2:
        return tuple(float(c) + 0.5 for c in labels)
    if kind == 3:
        return ["".join(["col", str(c), str(salt % 2)]) for c in labels]  # strings built at run time
    if kind == 4:
        return [frozenset([c, c + 2]) for c in labels]
    if kind == 5:
        return [bool(c) for c in labels]
    return [c for c in labels]


def long_events(ctx, quick):
    """Permutations of 1200 entries against short patterns (the search must not need a stack frame per entry of the
    permutation), as LongPred events for Trace_C01; and one pattern of 1100 entries: there the search nests one generator
    per pattern entry and exceeds the recursion limit - a listed finding when exactly that happens."""
    import sys
    n = 1200 if quick else 2000
    inc, dec = list(range(n)), list(range(n - 1, -1, -1))
    bump = inc[:n - 3] + [n - 1, n - 3, n - 2]
    ev = []
    for q, ps, kind in ((inc, [[1, 0]], "avoids"), (inc, [[1, 0]], "contains"), (dec, [[0, 1]], "avoids"), (bump, [[1, 0]], "contains"),
                        ([2, 0, 1] + inc[3:], [[2, 0, 1]], "contains"), (inc, [[0, 1, 2], [0, 1]], "contains"), (dec, [[1, 0], [0]], "contains"),
                        (inc, [[0, 1], [1, 0]], "avoids"), (dec, [[2, 1, 0]], "avoids")):
        Q, PS = Perm(q), [Perm(x) for x in ps]
        st, got = util.call((Q.contains if kind == "contains" else Q.avoids), *PS)
        ev.append({"op": "LongPred", "kind": kind, "q": q, "ps": ps, "raised": st != "ok", "res": bool(got) if st == "ok" else False,
                   "form": "%s on %d entries%s" % (kind, n, "" if st == "ok" else " raised " + str(got))})
        ctx.case(("long", kind, tuple(map(tuple, ps)), q[-1]), nontrivial=True)
    deep = max(1100, sys.getrecursionlimit() + 100)
    st, got = util.call(Perm(range(deep + 100)).contains, Perm(range(deep)))
    case = {"kind": "deep-pattern", "pattern": "identity(%d)" % deep, "perm": "identity(%d)" % (deep + 100)}
    if st == "raise" and got == "RecursionError":
        e = ctx.known_entry(KNOWN_SITE, KNOWN_DEV)
        if e is not None:
            ctx.known_finding(e, case)
        else:
            ctx.violation(case, "NoException", True, "RecursionError")
    elif st == "raise":
        ctx.violation(case, "NoException", True, got)
    elif got is not True:
        ctx.violation(case, "PredicatesAgree", True, got)
    return ev


def hardening_events(ctx, quick):
    """Recorded calls for Trace_C01 that vary what the exhaustive part keeps fixed: the container handed to the
    multi-pattern predicates, the role of a long-lived object (pattern in one call, permutation in the next),
    the size and shape of the inputs, other calls while lazy searches are suspended, a fresh interpreter."""
    rnd = util.rng(ctx, 101)
    ev = []
    E = Perm(())
    # -- (a) argument forms of the multi-pattern predicates, on long-lived permutation and pattern objects
    for rep_ in range(40 if quick else 200):
        q = special_perm(rnd, rnd.randint(0, 8))
        Q = Perm(q)                                   # one permutation object for the whole group of calls
        for _ in range(3):
            ps = [pattern_for(rnd, q, rnd.choice([0, 1, 2, 3, 3, 4, 5])) for _ in range(rnd.randint(0, 4))]
            if rnd.random() < 0.3:
                ps.append(())                          # the empty pattern: contained in everything
            if ps and rnd.random() < 0.4:
                ps.append(rnd.choice(ps))              # an equal pattern as a second object
            PS = [Perm(x) for x in ps]
            if PS and rnd.random() < 0.4:
                PS.append(PS[0])                       # the same object twice
                ps.append(ps[0])
            lps = [list(x) for x in ps]
            name, mk = SET_FORMS[(rep_ + len(ev)) % len(SET_FORMS)]
            ev.append({"op": "Pred", "kind": "avoids", "q": list(q), "ps": lps, "res": Q.avoids_set(mk(PS)), "form": "avoids_set(%s)" % name})
            name, mk = rnd.choice(SET_FORMS)
            ev.append({"op": "Pred", "kind": "avoids", "q": list(q), "ps": lps, "res": Q.avoids_set(mk(PS)), "form": "avoids_set(%s)" % name})
            if PS:                                     # (no patterns at all: left to the doc examples, not judged)
                ev.append({"op": "Pred", "kind": "contains", "q": list(q), "ps": lps, "res": Q.contains(*PS), "form": "contains(*)"})
                ev.append({"op": "Pred", "kind": "avoids", "q": list(q), "ps": lps, "res": Q.avoids(*PS), "form": "avoids(*)"})
                ev.append({"op": "Pred", "kind": "contains", "q": list(q), "ps": lps, "res": Q.contains(*reversed(PS)), "form": "contains(*reversed)"})
            for P, x in list(zip(PS, lps))[:2]:        # single-pattern entry points on the same objects, twice
                ev.append({"op": "Pred", "kind": "contains", "q": list(q), "ps": [x], "res": P in Q, "form": "in"})
                ev.append({"op": "Pred", "kind": "count", "q": list(q), "ps": [x], "res": Q.count_occurrences_of(P), "form": "count_occurrences_of"})
                ev.append({"op": "Pred", "kind": "count", "q": list(q), "ps": [x], "res": P.count_occurrences_in(Q), "form": "count_occurrences_in"})
                ev.append({"op": "Pred", "kind": "count", "q": list(q), "ps": [x], "res": sum(1 for _ in Q.occurrences_of(P)), "form": "occurrences_of"})
                ev.append({"op": "Pred", "kind": "count", "q": list(q), "ps": [x], "res": Q.count_occurrences_of(P), "form": "count again"})
        ev.append({"op": "Pred", "kind": "avoids", "q": list(q), "ps": [[]], "res": Q.avoids_set(iter([E])), "form": "avoids_set(empty pattern)"})
    # -- (b) longer permutations (8-10) with patterns of length 4-5, occurrences at the boundary
    for _ in range(100 if quick else 600):
        q = special_perm(rnd, rnd.randint(8, 10))
        p = pattern_for(rnd, q, rnd.choice([4, 4, 5]))
        P, Q = Perm(p), Perm(q)
        ev.append({"op": "New", "p": list(p)})
        ev.append({"op": "Search", "q": list(q), "res": _occ(P, Q), "tabok": True})
        ev.append({"op": "Pred", "kind": "count", "q": list(q), "ps": [list(p)], "res": Q.count_occurrences_of(P)})
        q2 = special_perm(rnd, rnd.randint(7, 10))       # the bound table is reused for a second long permutation
        ev.append({"op": "Search", "q": list(q2), "res": [list(t) for t in Perm(q2).occurrences_of(P)], "tabok": True})
        ev.append({"op": "Pred", "kind": "contains", "q": list(q2), "ps": [list(p)], "res": P in Perm(q2)})
        if len(p) < len(q):                              # a pattern longer than the permutation it is searched in
            ev.append({"op": "SearchedIn", "p2": list(q), "res": _occ(Q, P)})
    # -- (c) one object in both roles: pattern, then the permutation being searched, then pattern again
    for _ in range(80 if quick else 400):
        pool = [Perm(util.rand_perm(rnd, rnd.randint(1, 5))) for _ in range(3)]
        pool.append(Perm(tuple(pool[0])))               # an equal but distinct object
        pool.append(Perm(special_perm(rnd, rnd.randint(5, 7))))
        me = pool[0]
        ev.append({"op": "New", "p": list(me)})
        B, C = pool[4], pool[1]
        ev.append({"op": "Search", "q": list(B), "res": _occ(me, B), "tabok": True})
        ev.append({"op": "SearchedIn", "p2": list(C), "res": _occ(C, me)})
        ev.append({"op": "Search", "q": list(B), "res": _occ(me, B), "tabok": True})
        ev.append({"op": "SearchedIn", "p2": list(B), "res": _occ(B, me)})
        ev.append({"op": "Search", "q": list(me), "res": _occ(me, me), "tabok": True})
        for _ in range(rnd.randint(3, 8)):
            other = rnd.choice(pool)
            r = rnd.random()
            if r < 0.3:
                ev.append({"op": "Search", "q": list(other), "res": _occ(me, other), "tabok": True})
            elif r < 0.6:
                ev.append({"op": "SearchedIn", "p2": list(other), "res": _occ(other, me)})
            elif r < 0.7:
                cp = [rnd.randint(0, 1) for _ in me]
                cq = [rnd.randint(0, 1) for _ in other]
                # colours are compared by equality: any container, any equal objects
                res = [list(t) for t in me.occurrences_in(other, tuple("rb"[c] for c in cp), "".join("rb"[c] for c in cq))]
                ev.append({"op": "SearchCol", "q": list(other), "cp": cp, "cq": cq, "res": res})
            elif r < 0.85:
                ev.append({"op": "Pred", "kind": "count", "q": list(other), "ps": [list(me)], "res": other.count_occurrences_of(me)})
                ev.append({"op": "Pred", "kind": "count", "q": list(me), "ps": [list(other)], "res": me.count_occurrences_of(other)})
            else:
                ev.append({"op": "Pred", "kind": "contains", "q": list(me), "ps": [list(x) for x in pool], "res": me.contains(*pool)})
                ev.append({"op": "Pred", "kind": "avoids", "q": list(me), "ps": [list(x) for x in pool[1:3]], "res": me.avoids_set(x for x in pool[1:3])})
    # -- (d) other calls on the object while lazy searches on it are suspended half way
    for _ in range(80 if quick else 400):
        p = util.rand_perm(rnd, rnd.choice([1, 2, 2, 3, 3]))
        P = Perm(p)
        ev.append({"op": "New", "p": list(p)})
        live = []
        for _ in range(2):
            q = special_perm(rnd, rnd.randint(len(p), len(p) + 4))
            ev.append({"op": "OpenIter", "q": list(q)})
            live.append((len(live) + 1, P.occurrences_in(Perm(q)) if rnd.random() < 0.5 else Perm(q).occurrences_of(P)))
        while live:
            r = rnd.random()
            if r < 0.55:
                j = rnd.randrange(len(live))
                i, it = live[j]
                try:
                    ev.append({"op": "StepIter", "it": i, "stop": False, "res": list(next(it))})
                except StopIteration:
                    ev.append({"op": "StepIter", "it": i, "stop": True, "res": []})
                    live.pop(j)
                except Exception as e:  # pylint: disable=broad-except
                    ctx.violation({"kind": "iterator", "p": list(p)}, "NoException", "a tuple or StopIteration", type(e).__name__)
                    live.pop(j)
                continue
            q = special_perm(rnd, rnd.randint(0, 7))
            Q = Perm(q)
            if r < 0.7:
                ev.append({"op": "Search", "q": list(q), "res": _occ(P, Q), "tabok": True})
            elif r < 0.8:
                ev.append({"op": "SearchedIn", "p2": list(q), "res": _occ(Q, P)})
            elif r < 0.9:
                cp = [rnd.randint(0, 1) for _ in p]
                cq = [rnd.randint(0, 1) for _ in q]
                kd = rnd.randrange(7)
                ev.append({"op": "SearchCol", "q": list(q), "cp": cp, "cq": cq,
                           "res": [list(t) for t in P.occurrences_in(Q, colour_objects(cp, kd, len(ev)), colour_objects(cq, kd, len(ev)))]})
            else:
                ev.append({"op": "Pred", "kind": "contains", "q": list(q), "ps": [list(p)], "res": Q.contains(P)})
                ev.append({"op": "Pred", "kind": "count", "q": list(q), "ps": [list(p)], "res": P.count_occurrences_in(Q)})
    # -- (f) searches abandoned half way (KeyboardInterrupt inside the library, also while the search table of the pattern is
    #        being made) and the same pattern object used again: the abandoned call is no event, the later ones are judged as ever
    nint = 0
    for _ in range(60 if quick else 600):
        p = util.rand_perm(rnd, rnd.choice([2, 3, 3, 4, 5]))
        P = Perm(p)
        ev.append({"op": "New", "p": list(p)})
        for _ in range(3):
            q = special_perm(rnd, rnd.randint(len(p), len(p) + 3))
            Q = Perm(q)
            st, _ = util.interrupted_call(lambda: (list(P.occurrences_in(Q)), Q.contains(P)), rnd.choice([1, 2, 3, 4, 6, 9, 14, 22, 35, 60, 100]),
                                          suffixes=("permuta/patterns/",))
            nint += st == "interrupted"
            q2 = special_perm(rnd, rnd.randint(0, 7))
            ev.append({"op": "Search", "q": list(q2), "res": _occ(P, Perm(q2)), "tabok": True})
            ev.append({"op": "Search", "q": list(q), "res": _occ(P, Q), "tabok": True})
            ev.append({"op": "Pred", "kind": "count", "q": list(q), "ps": [list(p)], "res": Q.count_occurrences_of(P)})
    ctx.note("searches_abandoned_half_way", nint)
    # -- (e) a fresh interpreter whose very first call is a large query
    ev.extend(_cold_start_events(rnd, 4 if quick else 16))
    ev.extend(long_events(ctx, quick))
    return ev


TRACE_CONSTS = {"MinPatt": 0, "MaxPatt": 0, "MinPerm": 0, "MaxPerm": 0, "Shard": 0, "NShards": 1, "Colours": "{0, 1}"}


def replay(ctx, path):
    """Re-execute the stored case on the current code and let Trace_C01 judge it with the current spec."""
    import json
    rec = json.load(open(path))
    case = rec["case"]
    if case["kind"] == "trace-event":
        ev = dict(case["event"])
        events = []
        if ev["op"] in ("Search", "SearchCol", "SearchedIn", "OpenIter", "StepIter"):
            raise tlc.MachineryFailure("history events are replayed from their 'edge' form only")
        if ev["op"] == "Pred":
            Q, PS = Perm(ev["q"]), [Perm(x) for x in ev["ps"]]
            ev["res"] = {"contains": lambda: Q.contains(*PS), "avoids": lambda: Q.avoids(*PS),
                         "count": lambda: Q.count_occurrences_of(PS[0])}[ev["kind"]]()
        elif ev["op"] == "Col":
            ev["res"] = [list(t) for t in Perm(ev["p"]).occurrences_in(Perm(ev["q"]), ev["cp"], ev["cq"])]
        events.append(ev)
    else:
        p, q = case["p"], case["q"]
        P = Perm(p)
        events = [{"op": "New", "p": p}]
        if "from-bound" in case["kind"] or "reused" in case["kind"]:
            for q0 in (list(range(len(p) + 1)), list(p)):          # bring the object into the bound state
                events.append({"op": "Search", "q": q0, "res": [list(t) for t in P.occurrences_in(Perm(q0))], "tabok": True})
        if "cp" in case:
            res = [list(t) for t in P.occurrences_in(Perm(q), list(case["cp"]), list(case["cq"]))]
            events.append({"op": "SearchCol", "q": q, "cp": case["cp"], "cq": case["cq"], "res": res})
        else:
            res = [list(t) for t in P.occurrences_in(Perm(q))]
            events.append({"op": "Search", "q": q, "res": res, "tabok": True})
            Q = Perm(q)
            events.append({"op": "Pred", "kind": "contains", "q": q, "ps": [p], "res": Q.contains(P)})
            events.append({"op": "Pred", "kind": "avoids", "q": q, "ps": [p], "res": Q.avoids(P)})
            events.append({"op": "Pred", "kind": "count", "q": q, "ps": [p], "res": Q.count_occurrences_of(P)})
    v = util.validate_trace(ctx, "Trace_C01", events, invariants=INVS, constants=TRACE_CONSTS)
    if v["verdict"]:
        print("VIOLATION property=C01 replay=%s" % path)
        print("  still failing: %s" % v["verdict"])
        return 1
    print("replay: case passes on the current tree")
    return 0
