"""C08 - equality, hashing and ordering are coherent.

spec -> code : transition tour over C08_HashOrder (live objects, first-observed hashes, a set and a dict,
               environment actions AllocKeep / AllocFree / Collect between any two steps): hashes never
               change and coincide for equal keys, lookups of equal values succeed, across the pattern hierarchy.
code -> spec : the full relation table (==, hash equality, <, <=, >, >=) of a universe of values of all seven
               kinds and sorted() outputs, judged by Trace_C08 against the ordering laws.
"""
import concurrent.futures
import copy
import gc
import itertools
import json
import os
import pickle
import tempfile

from permuta import Basis, BivincularPatt, CovincularPatt, MeshBasis, MeshPatt, Perm, VincularPatt

from harness import tlc, tour, util

MESH_KINDS = ("MeshPatt", "BivincularPatt", "VincularPatt", "CovincularPatt")


def full(k, cols, rows):
    return sorted({(x, y) for x in cols for y in range(k + 1)} | {(x, y) for y in rows for x in range(k + 1)})


def V(kind, p, R=(), cols=None, rows=None, variant=0):
    return {"kind": kind, "p": tuple(p), "R": tuple(sorted(R)), "cols": cols, "rows": rows, "variant": variant}


def _req(xs, f):
    """The same list of adjacency requirements in another container form (form f)."""
    xs = list(xs)
    return [xs, list(reversed(xs)) + xs[:1], set(xs), (x for x in reversed(xs)), tuple(xs), frozenset(xs)][f % 6]


def _used(x):
    """The object after a caller has compared, sorted, hashed and searched it (whatever it caches lazily is filled in)."""
    sorted([x, MeshPatt(x.pattern, []), x, MeshPatt(x.pattern, sorted(x.shading)[:1])])
    hash(x), x == x, x < x, x <= x, repr(x)
    list(x.occurrences_in(Perm((0, 2, 1, 3))))
    return x


def make(v, variant=None):
    """Build the value; `variant` (default: the value's own) selects one of several equivalent ways of writing it
    (container form of the arguments, order, repetitions, copies): the TLA+ Key does not depend on it."""
    k = v["kind"]
    f = v.get("variant", 0) if variant is None else variant
    if k == "Perm":
        p = v["p"]
        forms = [lambda: Perm(p), lambda: Perm(list(p)), lambda: Perm(x for x in p), lambda: Perm.to_standard([3 * x + 1 for x in p]),
                 lambda: Perm(Perm(p)), lambda: pickle.loads(pickle.dumps(Perm(p))), lambda: copy.deepcopy(Perm(p)),
                 lambda: Perm(range(len(p))) if p == tuple(range(len(p))) else Perm(tuple(p))]
        return forms[f % len(forms)]()
    if k == "MeshPatt":
        P, R = Perm(v["p"]), list(v["R"])
        forms = [lambda: MeshPatt(P, list(R)), lambda: MeshPatt(P, set(R)), lambda: MeshPatt(P, frozenset(R)),
                 lambda: MeshPatt(P, (c for c in reversed(R))), lambda: MeshPatt(P, R + R[:2]), lambda: MeshPatt(Perm(list(P)), tuple(reversed(R))),
                 lambda: MeshPatt(P, R[: len(R) // 2]).shade(*R[len(R) // 2:]) if R else MeshPatt(P),
                 lambda: pickle.loads(pickle.dumps(MeshPatt(P, R))), lambda: copy.deepcopy(MeshPatt(P, R)),
                 lambda: MeshPatt.unrank(P, sum(1 << (x * (len(P) + 1) + y) for x, y in R)),
                 # obtained from an object that was used first: by shading more cells, through its symmetric images
                 lambda: _used(MeshPatt(P, R[: len(R) // 2])).shade(*R[len(R) // 2:]) if R else _used(MeshPatt(P)).shade(),
                 lambda: _used(_used(MeshPatt(P, R)).reverse()).reverse(),
                 lambda: _used(_used(_used(MeshPatt(P, R)).rotate(1)).rotate(2)).rotate(1),
                 lambda: _used(_used(MeshPatt(P, R)).inverse()).inverse() if len(R) % 2 else _used(_used(MeshPatt(P, R)).complement()).complement(),
                 lambda: _used(MeshPatt(P, R[1:])).shade(R[0]) if R else MeshPatt(P),
                 # cells the used parent already shades are shaded again (alone, and together with the missing ones)
                 lambda: _used(MeshPatt(P, R)).shade(*R[:2]) if R else _used(MeshPatt(P)).shade(),
                 lambda: _used(MeshPatt(P, R[: max(1, len(R) - 1)])).shade(*R) if R else MeshPatt(P),
                 lambda: _used(_used(MeshPatt(P, R[:1])).shade(*R[:1])).shade(*reversed(R)) if R else MeshPatt(P)]
        return forms[f % len(forms)]()
    if k == "BivincularPatt":
        m = BivincularPatt(Perm(v["p"]), _req(v["cols"], f), _req(v["rows"], f + 1))
    elif k == "VincularPatt":
        m = VincularPatt(Perm(v["p"]), _req(v["cols"], f))
    elif k == "CovincularPatt":
        m = CovincularPatt(Perm(v["p"]), _req(v["rows"], f))
    elif k in ("Basis", "MeshBasis"):
        cls = Basis if k == "Basis" else MeshBasis
        els = [make(e, f + i) for i, e in enumerate(v["elems"])]
        forms = [lambda: cls(*els), lambda: cls(*reversed(els)), lambda: cls.from_iterable(iter(els + els[:1])), lambda: cls.from_iterable(set(els)),
                 lambda: cls(*cls(*els)), lambda: cls.from_iterable(cls(*reversed(els)))]
        if k == "Basis" and all(0 < len(e["p"]) < 10 for e in v["elems"]):
            forms.append(lambda: Basis.from_string(" ".join("".join(str(x + 1) for x in e["p"]) for e in v["elems"])))
        return forms[f % len(forms)]()
    else:
        raise ValueError(k)
    if f % 7 == 5:
        return pickle.loads(pickle.dumps(m))
    if f % 7 == 6:
        return copy.deepcopy(m)
    return m


def foreign_twin(o):
    """A non-pattern object whose hash collides with the object's, so that a set / dict holding it must compare
    it with the pattern on lookup (None when no such object is known)."""
    if isinstance(o, MeshPatt):
        t = (o.pattern, o.shading)
    elif isinstance(o, (Basis, MeshBasis)):
        t = tuple(o)
    else:
        return None
    return t if hash(t) == hash(o) and not (t == o) and not (o == t) else None


def clone(o, f):
    """Copy(i): a new object made from a live one.  (copy / pickle of Basis and MeshBasis do not work in Permuta and are
    not promised by the property: bases are rebuilt from their elements.)"""
    if isinstance(o, (Basis, MeshBasis)):
        return [lambda: type(o)(*o), lambda: type(o).from_iterable(reversed(o)), lambda: type(o)(*o, *o)][f % 3]()
    forms = [lambda: copy.copy(o), lambda: copy.deepcopy(o), lambda: pickle.loads(pickle.dumps(o))]
    if isinstance(o, Perm):
        forms += [lambda: Perm(o), lambda: Perm(list(o)), lambda: Perm(iter(o))]
    elif isinstance(o, BivincularPatt):
        forms += [lambda: BivincularPatt(o.pattern, *o.get_adjacent_requirements()), lambda: MeshPatt(o.pattern, set(o.shading))]
    else:
        forms += [lambda: MeshPatt(o.pattern, o.shading), lambda: MeshPatt(Perm(tuple(o.pattern)), sorted(o.shading, reverse=True))]
    return forms[f % len(forms)]()


def use(o, others):
    """Use(i): everything a caller may do with a value between two hash computations."""
    repr(o), str(o), len(o), bool(o), o == o, o != o
    for x in others:
        o == x, x == o, o != x
        if isinstance(o, Perm) and isinstance(x, Perm) or isinstance(o, MeshPatt) and isinstance(x, MeshPatt):
            sorted([o, x, o]), o < x, o >= x
    if not isinstance(o, (Basis, MeshBasis)):          # (copies of bases do not work in Permuta; not part of the property)
        pickle.dumps(o), copy.copy(o)
    if isinstance(o, BivincularPatt):
        o.get_adjacent_requirements()
    if isinstance(o, MeshPatt):
        o.pattern, sorted(o.shading), o.rank(), o.complement(), o.contains(o), list(o.occurrences_in(Perm((0, 2, 1, 3))))
        if len(o) <= 3:
            o.shadable_boxes()
    elif isinstance(o, Perm):
        o.inverse(), o.count_inversions(), list(Perm((0,)).occurrences_in(o)), list(o.occurrences_in(Perm((0, 2, 1, 3)))), o.contains(Perm((0, 1)))
    else:
        list(o), o[:1], o + o, [e for e in o]


def tla_value(v):
    if v["kind"] in ("Basis", "MeshBasis"):
        return '[kind |-> "%s", p |-> <<>>, R |-> {}, elems |-> << %s >>]' % (v["kind"], ", ".join(tla_value(e) for e in v["elems"]))
    return '[kind |-> "%s", p |-> %s, R |-> {%s}, elems |-> <<>>]' % (
        v["kind"], tlc.tla(list(v["p"])), ", ".join(tlc.tla(list(c)) for c in v["R"]))


def universe(rnd, quick):
    vals = []
    for n in range(0, 4):
        for p in util.perms_of(n):
            vals.append(V("Perm", p))
    for p in ((0,), (0, 1), (1, 0)):
        k = len(p)
        for cols, rows in (([], []), ([0], []), ([k], []), ([], [0]), ([], [k]), ([1], [1]), ([0, 1], []), ([], [0, 1]), (list(range(k + 1)), [])):
            R = full(k, cols, rows)
            vals.append(V("MeshPatt", p, R))
            vals.append(V("BivincularPatt", p, R, cols, rows))
            if not rows:
                vals.append(V("VincularPatt", p, R, cols, []))
            if not cols:
                vals.append(V("CovincularPatt", p, R, [], rows))
    # shadings where one sorted shading is a proper prefix of the other, and non-bivincular ones
    for p in ((0, 1), (1, 0)):
        for R in ([(0, 0)], [(0, 0), (0, 1)], [(0, 0), (2, 2)], [(1, 1)], [(0, 0), (1, 1)], [(2, 2)]):
            vals.append(V("MeshPatt", p, R))
    vals.append(V("MeshPatt", (0, 2, 1), []))
    vals.append(V("MeshPatt", (), []))
    vals.append(V("MeshPatt", (), [(0, 0)]))
    if not quick:
        for _ in range(30):
            k = rnd.choice([2, 3])
            p = util.rand_perm(rnd, k)
            vals.append(V("MeshPatt", p, [(x, y) for x in range(k + 1) for y in range(k + 1) if rnd.random() < 0.3]))
    dedup, seen = [], set()
    for v in vals:
        kk = (v["kind"], v["p"], v["R"])
        if kk not in seen:
            seen.add(kk)
            dedup.append(v)
    bases = [
        {"kind": "Basis", "elems": [V("Perm", (0, 1))]}, {"kind": "Basis", "elems": [V("Perm", (0, 2, 1)), V("Perm", (1, 0))]},
        {"kind": "Basis", "elems": [V("Perm", (1, 0)), V("Perm", (0, 2, 1))]},
        {"kind": "MeshBasis", "elems": [V("MeshPatt", (0, 1), [])]}, {"kind": "MeshBasis", "elems": [V("Perm", (0, 1))]},
        {"kind": "MeshBasis", "elems": [V("MeshPatt", (0, 1), full(2, [1], []))]},
        {"kind": "MeshBasis", "elems": [V("VincularPatt", (0, 1), full(2, [1], []), [1], [])]},
        {"kind": "MeshBasis", "elems": [V("BivincularPatt", (0, 1), full(2, [1], []), [1], [])]},
    ]
    return dedup, bases


ALLOC = []


def env(name, objs):
    if name == "AllocKeep":
        for o in objs:
            if isinstance(o, BivincularPatt):
                ALLOC.append([super(BivincularPatt, o) for _ in range(40)])
        ALLOC.append([tuple([i, i + 1]) for i in range(300)] + [object() for _ in range(200)] + [frozenset([i]) for i in range(50)])
    elif name == "AllocFree":
        junk = [tuple([i]) for i in range(500)] + [object() for _ in range(500)]
        for o in objs:
            if isinstance(o, BivincularPatt):
                junk.append([super(BivincularPatt, o) for _ in range(60)])
        del junk
    else:
        gc.collect()


def weak_hash_events(ctx):
    """Run in the weak-hash interpreter (harness/weakhash.py): the relation table of the larger values, built where unequal
    values share their hash all the time (equality, order, set and dictionary lookups must not lean on hash values)."""
    rnd = util.rng(ctx, 88)
    big, bigbases = big_universe(rnd, True)
    events, allv = build_table(ctx, rnd, True, big + bigbases, "larger values, weak hashes")
    return [{"allv": allv, "events": events}]


def run(ctx):
    quick = ctx.tier == "quick"
    rnd = util.rng(ctx, 8)
    weak = util.weak_hash_start(ctx, "c08", "weak_hash_events")
    vals, bases = universe(rnd, quick)
    # ---- history machine: small value set, all action sequences via a transition tour -------------
    hv = [v for v in vals if v["p"] in ((0, 1),) and (v["kind"] == "Perm" or v["R"] in ((), tuple(full(2, [1], []))))]
    hv += [v for v in vals if v["kind"] == "CovincularPatt" and v["p"] == (1, 0)][:1]
    hv += bases[3:8:2] + bases[:1]
    mod = util.mc_module("MC_C08", "C08_HashOrder", {"ValuesDef": "<< " + ", ".join(tla_value(v) for v in hv) + " >>"})
    k = {"Values": ("<-", "ValuesDef"), "MaxObjs": 2}
    c = util.cfg(init="Init", next_="Next", invariants=["SameMeansEqualKey", "CrossKindEq"], properties=["HashStable"],
                 view="View", action_constraints=["EmitEdge"], constants=k)
    r = tlc.run_tlc("MC_C08", c, workers=1, files={"MC_C08.tla": mod}, timeout=1800)
    ctx.add_tlc(r, "hash/lookup history machine")
    edges = r.records
    paths = tour.tours(edges, tour.key({"objs": [], "hseen": [], "pyset": []}), max_path=300)
    names = set()
    twins = [t for t in (foreign_twin(make(v)) for v in hv) if t is not None]
    ctx.note("foreign_objects_with_colliding_hash_in_the_containers", len(twins))
    for pi, path in enumerate(paths):
        objs, hashes, pyset, pydict, hist = [], {}, set(twins), {t: None for t in twins}, []
        del ALLOC[:]
        for idx in path:
            e = edges[idx]
            a = e["act"]
            names.add(a["name"])
            hist.append(a)
            case = {"kind": "path", "values": [tla_value(v) for v in hv], "path": list(hist)}
            n, i = a["name"], a["i"]
            ctx.case(("hist", idx), nontrivial=n in ("Hash", "SetLookup") and len(hist) > 3)
            try:
                if n == "Create":
                    objs.append(make(hv[i - 1], pi + len(hist)))
                elif n == "Copy":
                    c = clone(objs[i - 1], pi + len(hist))
                    if not (c == objs[i - 1]):
                        ctx.drift("a copy of %r is not equal to it (copying is not part of the property)" % (objs[i - 1],))
                        c = make(hv[e["to"]["objs"][-1] - 1])
                    objs.append(c)
                elif n == "Use":
                    use(objs[i - 1], objs)
                elif n == "Hash":
                    h = hash(objs[i - 1])
                    for j in e["obs"]["same"]:
                        if hashes.get(j - 1) is not None and hashes[j - 1] != h:
                            clause = "HashStable" if j == i else "EqualImpliesEqualHash"
                            ctx.violation(case, clause, "hash equal to the one recorded for object %d" % j, "different hash")
                            break
                    hashes[i - 1] = h
                elif n == "SetAdd":
                    pyset.add(objs[i - 1])
                    pydict[objs[i - 1]] = i
                    hashes.setdefault(i - 1, hash(objs[i - 1]))
                elif n == "SetLookup":
                    got = (objs[i - 1] in pyset, pydict.get(objs[i - 1]) is not None, objs[i - 1] in [o for o in pyset if not isinstance(o, tuple) or isinstance(o, (Perm, Basis, MeshBasis))])
                    want = (e["obs"]["flag"],) * 3
                    if got != want:
                        ctx.violation(case, "LookupFindsEqual", want, got)
                else:
                    env(n, objs)
            except Exception as ex:  # pylint: disable=broad-except
                ctx.violation(case, "NoException", "no exception", type(ex).__name__ + ": " + str(ex)[:80])
                break
        ctx.traces += 1
    if not {"Create", "Hash", "SetAdd", "SetLookup", "AllocKeep", "AllocFree", "Collect", "Use", "Copy"} <= names:
        raise tlc.MachineryFailure("C08: actions never taken: %s" % names)
    ctx.note("history_edges", len(edges))
    ctx.sample({"machine": "C08_HashOrder", "edge": edges[len(edges) // 2]})
    ctx.exhaustive = True

    # ---- relation tables: the small universe (every ordered pair) and a universe of larger values ------------
    big, bigbases = big_universe(rnd, quick)
    tables = [("small universe", vals + bases), ("larger values", big + bigbases)]
    built = [build_table(ctx, rnd, quick, allv, label) for label, allv in tables]
    for doc in util.weak_hash_finish(ctx, weak, "c08"):
        tables.append(("larger values, hashes reduced modulo 3", doc["allv"]))
        built.append((doc["events"], doc["allv"]))
    with concurrent.futures.ThreadPoolExecutor(max_workers=3) as ex:
        outs = list(ex.map(lambda t: judge_table(*t), built))
    for (label, allv), (events, _), (res, done) in zip(tables, built, outs):
        ctx.add_tlc(res, "relation table validation (%s)" % label)
        if len(done) != 1 or done[0]["n"] != len(events):
            raise tlc.MachineryFailure("Trace_C08: trace not fully consumed\n" + res.stdout[-1500:])
        ctx.traces += 1
        ctx.case(n=len(events))
        for ev in events:
            if ev["op"] == "Rel" and ev["a"] != ev["b"]:
                ctx.nontrivial.add(("rel", label, ev["a"], ev["b"]))
        seen_clauses = set()
        for b in done[0]["verdict"]:
            ev = events[b["i"] - 1]
            desc = {"kind": "pair", "clause": b["clause"], "table": label}
            if ev["op"] == "Rel":
                desc.update({"a": tla_value(allv[ev["a"] - 1]), "b": tla_value(allv[ev["b"] - 1]), "observed": ev,
                             "written": [allv[ev["a"] - 1].get("variant", 0), allv[ev["b"] - 1].get("variant", 0)]})
            else:
                desc.update({"event": ev})
                if "x" in ev:
                    desc["x"] = tla_value(allv[ev["x"] - 1])
            if (b["clause"], ev.get("a"), ev.get("b")) in seen_clauses:
                continue
            seen_clauses.add((b["clause"], ev.get("a"), ev.get("b")))
            ctx.violation(desc, b["clause"], "the law named by the clause (see Trace_C08)", ev)
        ctx.note("values (%s)" % label, len(allv))
    events = built[0][0]
    perm_idx = [i + 1 for i, v in enumerate(vals + bases) if v["kind"] == "Perm"]
    ctx.sample({"machine": "Trace_C08", "events": events[len(perm_idx) + 3: len(perm_idx) + 5]})
    ctx.rule = ("history machine: transition tour over all (state, action) edges with two live objects of seven kinds, "
                "environment allocation actions, Use and Copy; relation tables: every ordered pair of the value universe and of "
                "a universe of larger values written in several container forms (non-trivial = distinct values), sorted() / "
                "min / max calls, set / dict lookups in mixed containers and re-hashing, judged by Trace_C08")
    ctx.assumptions.append("allocation histories are those generated by AllocKeep/AllocFree/Collect (tuples, objects, super proxies), not arbitrary allocator states")


def big_universe(rnd, quick):
    """Values beyond the small universe: permutations of length 4-7 (boundary differences: first / last entry, length),
    mesh-type patterns of length 3-5 with many cells (prefix-related shadings, full grids, bivincular twins written with
    different subclasses), each written in two container forms; bases with longer elements."""
    vals = []
    for n in (4, 5, 6, 7):
        ident = tuple(range(n))
        cand = [ident, tuple(reversed(ident)), ident[:-2] + (ident[-1], ident[-2]), (1, 0) + ident[2:], ident[1:] + (0,), (n - 1,) + ident[:-1]]
        cand += [util.rand_perm(rnd, n) for _ in range(1 if quick else 4)]
        for p in cand[: (4 if quick and n > 5 else len(cand))]:
            vals.append(V("Perm", p, variant=rnd.randrange(8)))
    for n in (11, 12):                                # differ, although their entries written one after the other read the same
        for t in util.digit_twins(rnd, n, structured=n == 11):
            vals.append(V("Perm", t, variant=rnd.randrange(8)))
    vals.append(V("Perm", (0, 1, 2, 3), variant=2))
    vals.append(V("Perm", (0, 1, 2, 3), variant=5))
    for _ in range(4 if quick else 11):
        k = rnd.choice([3, 3, 4, 5])
        p = util.rand_perm(rnd, k)
        cells = [(x, y) for x in range(k + 1) for y in range(k + 1)]
        R = sorted(c for c in cells if rnd.random() < rnd.choice([0.5, 0.8]))
        vals.append(V("MeshPatt", p, R, variant=rnd.randrange(18)))
        vals.append(V("MeshPatt", p, R, variant=rnd.randrange(18)))          # the same value written differently
        vals.append(V("MeshPatt", p, R[: len(R) // 2], variant=rnd.randrange(18)))   # sorted shading is a proper prefix
        vals.append(V("MeshPatt", p, R[1:], variant=rnd.randrange(18)))
        vals.append(V("MeshPatt", p, cells, variant=rnd.randrange(18)))
        cols = [x for x in range(k + 1) if rnd.random() < 0.5]
        rows = [y for y in range(k + 1) if rnd.random() < 0.3]
        Rb = full(k, cols, rows)
        vals.append(V("MeshPatt", p, Rb, variant=rnd.randrange(18)))
        vals.append(V("BivincularPatt", p, Rb, cols, rows, variant=rnd.randrange(7)))
        vals.append(V("BivincularPatt", p, Rb, cols, rows, variant=rnd.randrange(7)))
        vals.append(V("VincularPatt", p, full(k, cols, []), cols, [], variant=rnd.randrange(7)))
        vals.append(V("CovincularPatt", p, full(k, [], rows), [], rows, variant=rnd.randrange(7)))
        allc = list(range(k + 1))
        vals.append(V("VincularPatt", p, full(k, allc, []), allc, [], variant=rnd.randrange(7)))       # full grid in three spellings
        vals.append(V("CovincularPatt", p, full(k, [], allc), [], allc, variant=rnd.randrange(7)))
        vals.append(V("BivincularPatt", p, full(k, allc, rows), allc, rows, variant=rnd.randrange(7)))
    e1, e2, e3 = V("Perm", (0, 2, 1, 3)), V("Perm", (3, 2, 1, 0, 4)), V("Perm", (1, 0, 2, 5, 4, 3))
    m1 = V("MeshPatt", (0, 2, 1), [(0, 0), (1, 1), (3, 3)])
    m2 = V("VincularPatt", (1, 0, 2), full(3, [1, 2], []), [1, 2], [])
    m2m = V("MeshPatt", (1, 0, 2), full(3, [1, 2], []))
    bases = [{"kind": "Basis", "elems": [e1, e2, e3], "variant": 0}, {"kind": "Basis", "elems": [e3, e1, e2], "variant": 1},
             {"kind": "Basis", "elems": [e2, e3, e1], "variant": 6}, {"kind": "Basis", "elems": [e1, e2], "variant": 2},
             {"kind": "Basis", "elems": [e1], "variant": 3}, {"kind": "MeshBasis", "elems": [e1], "variant": 0},
             {"kind": "MeshBasis", "elems": [m1, m2, e2], "variant": 0}, {"kind": "MeshBasis", "elems": [e2, m2m, m1], "variant": 1},
             {"kind": "MeshBasis", "elems": [m2, m1], "variant": 3}, {"kind": "MeshBasis", "elems": [m1, m2m], "variant": 2}]
    return vals, bases


def build_table(ctx, rnd, quick, allv, label):
    real = [make(v) for v in allv]
    events = []
    hs = []
    for a, o in enumerate(real):
        st, h = util.call(hash, o)
        if st == "raise":
            ctx.violation({"kind": "value", "a": tla_value(allv[a]), "written": allv[a].get("variant", 0)}, "NoException", "a hash", h)
            real[a] = o = make(allv[a], 0)
            h = hash(o)
        hs.append(h)
    for a in range(len(allv)):
        for b in range(len(allv)):
            x, y = real[a], real[b]
            st, eq = util.call(lambda: (bool(x == y), bool(x != y)))
            if st == "raise":
                ctx.violation({"kind": "pair", "a": tla_value(allv[a]), "b": tla_value(allv[b])}, "NoException", "== and != return booleans", eq)
                eq = (False, True)
            ev = {"op": "Rel", "a": a + 1, "b": b + 1, "eq": eq[0], "heq": hs[a] == hs[b]}
            if eq[0] == eq[1]:
                ctx.violation({"kind": "pair", "a": tla_value(allv[a]), "b": tla_value(allv[b])}, "EqNeConsistent", "== and != complementary", "both/neither")
            comparable = (allv[a]["kind"] == "Perm" and allv[b]["kind"] == "Perm") or (allv[a]["kind"] in MESH_KINDS and allv[b]["kind"] in MESH_KINDS)
            if comparable:
                try:
                    ev.update({"defined": True, "lt": bool(x < y), "le": bool(x <= y), "gt": bool(x > y), "ge": bool(x >= y)})
                except Exception:  # pylint: disable=broad-except
                    ev.update({"defined": False, "lt": False, "le": False, "gt": False, "ge": False})
            else:
                ev.update({"defined": False, "lt": False, "le": False, "gt": False, "ge": False})
            events.append(ev)
    events.append({"op": "Close", "a": 0, "b": 0})
    # == / != against objects that are not patterns: the property promises nothing about them; an exception is drift
    for o in real:
        for f in (5, None, "01", object(), frozenset(), [0, 1]):
            st, got = util.call(lambda: (o == f, o != f, f == o))
            if st == "raise":
                ctx.drift("comparing %r with the non-pattern object %r by == raises %s" % (o, f, got))
                break
    perm_idx = [i + 1 for i, v in enumerate(allv) if v["kind"] == "Perm"]
    mesh_idx = [i + 1 for i, v in enumerate(allv) if v["kind"] in MESH_KINDS]

    def back(inp, out_objs):
        idmap = {}
        for i in inp:
            idmap.setdefault(id(real[i - 1]), i)
        return [idmap[id(o)] for o in out_objs]
    for pool in (perm_idx, mesh_idx):
        for it in range(8 if quick else 40):
            inp = [rnd.choice(pool) for _ in range(rnd.randint(3, 12))]
            rev = it % 4 == 3
            try:
                if it % 2 == 0:
                    out = back(inp, sorted((real[i - 1] for i in inp), reverse=rev))
                else:
                    lst = [real[i - 1] for i in inp]
                    lst.sort(reverse=rev)
                    out = back(inp, lst)
            except TypeError:
                out = []
            events.append({"op": "Sorted", "inp": inp, "out": out, "rev": rev})
            for which, f in (("min", min), ("max", max)):
                try:
                    o = back(inp, [f(real[i - 1] for i in inp)])[0]
                except TypeError:
                    o = 0
                events.append({"op": "Extreme", "inp": inp, "which": which, "out": o})
    # one big set and dict holding a mixture of all kinds (and, where known, non-pattern objects with colliding hashes)
    order = list(range(1, len(allv) + 1))
    for it in range(3 if quick else 10):
        rnd.shuffle(order)
        present = order[: len(order) // 2]
        st, dct = {o for o in map(foreign_twin, real) if o is not None}, {}
        for o in list(st):
            dct[o] = 0
        nforeign = len(st)
        for i in present:
            st.add(real[i - 1])
            dct.setdefault(real[i - 1], i)
        events.append({"op": "Distinct", "inp": present, "n": len(st) - nforeign})
        events.append({"op": "Distinct", "inp": present, "n": len(dct) - nforeign})
        fz = frozenset(real[i - 1] for i in present)
        for x in order[:: (3 if quick else 1)]:
            events.append({"op": "Lookup", "present": present, "x": x, "found": real[x - 1] in st})
            events.append({"op": "Lookup", "present": present, "x": x, "found": dct.get(real[x - 1], 0) > 0})
            events.append({"op": "Lookup", "present": present, "x": x, "found": make(allv[x - 1], it + x) in fz})
    # hashes once more after all of the above (and an allocation round)
    first = [hash(o) for o in real]
    env("AllocKeep", real)
    env("AllocFree", real)
    env("Collect", real)
    for a, o in enumerate(real):
        use(o, real[a + 1: a + 2])
        events.append({"op": "Rehash", "a": a + 1, "same": hash(o) == first[a] and hash(make(allv[a], a)) == first[a]})
    del ALLOC[:]
    return events, allv


def judge_table(events, allv):
    mod = util.mc_module("MC_T08", "Trace_C08", {"TValuesDef": "<< " + ", ".join(tla_value(v) for v in allv) + " >>"})
    fd, path = tempfile.mkstemp(prefix="verif-trace-", suffix=".json")
    try:
        with os.fdopen(fd, "w") as fh:
            json.dump(events, fh)
        c = util.cfg(init="TInit", next_="TNext", constants={"TValues": ("<-", "TValuesDef")}, invariants=["TraceDone"])
        res = tlc.run_tlc("MC_T08", c, workers=1, timeout=3000, env={"TRACE_FILE": path}, files={"MC_T08.tla": mod}, full_jit=True)
    finally:
        os.unlink(path)
    return res, [x for x in res.records if "verdict" in x]


def replay(ctx, path):
    raise tlc.MachineryFailure("C08 cases are replayed by re-running the check (the relation table is recomputed from the current code)")
