"""C08 - equality, hashing and ordering are coherent.

spec -> code : transition tour over C08_HashOrder (live objects, first-observed hashes, a set and a dict,
               environment actions AllocKeep / AllocFree / Collect between any two steps): hashes never
               change and coincide for equal keys, lookups of equal values succeed, across the pattern hierarchy.
code -> spec : the full relation table (==, hash equality, <, <=, >, >=) of a universe of values of all seven
               kinds and sorted() outputs, judged by Trace_C08 against the ordering laws.
"""
import gc
import itertools
import json

from permuta import Basis, BivincularPatt, CovincularPatt, MeshBasis, MeshPatt, Perm, VincularPatt

from harness import tlc, tour, util

MESH_KINDS = ("MeshPatt", "BivincularPatt", "VincularPatt", "CovincularPatt")


def full(k, cols, rows):
    return sorted({(x, y) for x in cols for y in range(k + 1)} | {(x, y) for y in rows for x in range(k + 1)})


def V(kind, p, R=(), cols=None, rows=None):
    return {"kind": kind, "p": tuple(p), "R": tuple(sorted(R)), "cols": cols, "rows": rows}


def make(v):
    k = v["kind"]
    if k == "Perm":
        return Perm(v["p"])
    if k == "MeshPatt":
        return MeshPatt(Perm(v["p"]), list(v["R"]))
    if k == "BivincularPatt":
        return BivincularPatt(Perm(v["p"]), v["cols"], v["rows"])
    if k == "VincularPatt":
        return VincularPatt(Perm(v["p"]), v["cols"])
    if k == "CovincularPatt":
        return CovincularPatt(Perm(v["p"]), v["rows"])
    if k == "Basis":
        return Basis(*[make(e) for e in v["elems"]])
    if k == "MeshBasis":
        return MeshBasis(*[make(e) for e in v["elems"]])
    raise ValueError(k)


def tla_value(v):
    if v["kind"] in ("Basis", "MeshBasis"):
        return '[kind |-> "%s", p |-> <<>>, R |-> {}, elems |-> << %s >>]' % (v["kind"], ", ".join(tla_value(e) for e in v["elems"]))
    return '[kind |-> "%s", p |-> %s, R |-> {%s}, elems |-> <<>>]' % (
        v["kind"], tlc.tla(list(v["p"])), ", ".join(tlc.tla(list(c)) for c in v["R"]))


def universe(rnd, quick):
    vals = []
    for n in range(0, 4):
        for p in util.perms_of(n):
            vals.append(V("Perm", p))
    for p in ((0,), (0, 1), (1, 0)):
        k = len(p)
        for cols, rows in (([], []), ([0], []), ([k], []), ([], [0]), ([], [k]), ([1], [1]), ([0, 1], []), ([], [0, 1]), (list(range(k + 1)), [])):
            R = full(k, cols, rows)
            vals.append(V("MeshPatt", p, R))
            vals.append(V("BivincularPatt", p, R, cols, rows))
            if not rows:
                vals.append(V("VincularPatt", p, R, cols, []))
            if not cols:
                vals.append(V("CovincularPatt", p, R, [], rows))
    # shadings where one sorted shading is a proper prefix of the other, and non-bivincular ones
    for p in ((0, 1), (1, 0)):
        for R in ([(0, 0)], [(0, 0), (0, 1)], [(0, 0), (2, 2)], [(1, 1)], [(0, 0), (1, 1)], [(2, 2)]):
            vals.append(V("MeshPatt", p, R))
    vals.append(V("MeshPatt", (0, 2, 1), []))
    vals.append(V("MeshPatt", (), []))
    vals.append(V("MeshPatt", (), [(0, 0)]))
    if not quick:
        for _ in range(30):
            k = rnd.choice([2, 3])
            p = util.rand_perm(rnd, k)
            vals.append(V("MeshPatt", p, [(x, y) for x in range(k + 1) for y in range(k + 1) if rnd.random() < 0.3]))
    dedup, seen = [], set()
    for v in vals:
        kk = (v["kind"], v["p"], v["R"])
        if kk not in seen:
            seen.add(kk)
            dedup.append(v)
    bases = [
        {"kind": "Basis", "elems": [V("Perm", (0, 1))]}, {"kind": "Basis", "elems": [V("Perm", (0, 2, 1)), V("Perm", (1, 0))]},
        {"kind": "Basis", "elems": [V("Perm", (1, 0)), V("Perm", (0, 2, 1))]},
        {"kind": "MeshBasis", "elems": [V("MeshPatt", (0, 1), [])]}, {"kind": "MeshBasis", "elems": [V("Perm", (0, 1))]},
        {"kind": "MeshBasis", "elems": [V("MeshPatt", (0, 1), full(2, [1], []))]},
        {"kind": "MeshBasis", "elems": [V("VincularPatt", (0, 1), full(2, [1], []), [1], [])]},
        {"kind": "MeshBasis", "elems": [V("BivincularPatt", (0, 1), full(2, [1], []), [1], [])]},
    ]
    return dedup, bases


ALLOC = []


def env(name, objs):
    if name == "AllocKeep":
        for o in objs:
            if isinstance(o, BivincularPatt):
                ALLOC.append([super(BivincularPatt, o) for _ in range(40)])
        ALLOC.append([tuple([i, i + 1]) for i in range(300)] + [object() for _ in range(200)] + [frozenset([i]) for i in range(50)])
    elif name == "AllocFree":
        junk = [tuple([i]) for i in range(500)] + [object() for _ in range(500)]
        for o in objs:
            if isinstance(o, BivincularPatt):
                junk.append([super(BivincularPatt, o) for _ in range(60)])
        del junk
    else:
        gc.collect()


def run(ctx):
    quick = ctx.tier == "quick"
    rnd = util.rng(ctx, 8)
    vals, bases = universe(rnd, quick)
    # ---- history machine: small value set, all action sequences via a transition tour -------------
    hv = [v for v in vals if v["p"] in ((0, 1),) and (v["kind"] == "Perm" or v["R"] in ((), tuple(full(2, [1], []))))]
    hv += [v for v in vals if v["kind"] == "CovincularPatt" and v["p"] == (1, 0)][:1]
    hv += bases[3:8:2] + bases[:1]
    mod = util.mc_module("MC_C08", "C08_HashOrder", {"ValuesDef": "<< " + ", ".join(tla_value(v) for v in hv) + " >>"})
    k = {"Values": ("<-", "ValuesDef"), "MaxObjs": 2}
    c = util.cfg(init="Init", next_="Next", invariants=["SameMeansEqualKey", "CrossKindEq"], properties=["HashStable"],
                 view="View", action_constraints=["EmitEdge"], constants=k)
    r = tlc.run_tlc("MC_C08", c, workers=1, files={"MC_C08.tla": mod}, timeout=1800)
    ctx.add_tlc(r, "hash/lookup history machine")
    edges = r.records
    paths = tour.tours(edges, tour.key({"objs": [], "hseen": [], "pyset": []}), max_path=300)
    names = set()
    for path in paths:
        objs, hashes, pyset, pydict, hist = [], {}, set(), {}, []
        del ALLOC[:]
        for idx in path:
            e = edges[idx]
            a = e["act"]
            names.add(a["name"])
            hist.append(a)
            case = {"kind": "path", "values": [tla_value(v) for v in hv], "path": list(hist)}
            n, i = a["name"], a["i"]
            ctx.case(("hist", idx), nontrivial=n in ("Hash", "SetLookup") and len(hist) > 3)
            try:
                if n == "Create":
                    objs.append(make(hv[i - 1]))
                elif n == "Hash":
                    h = hash(objs[i - 1])
                    for j in e["obs"]["same"]:
                        if hashes.get(j - 1) is not None and hashes[j - 1] != h:
                            clause = "HashStable" if j == i else "EqualImpliesEqualHash"
                            ctx.violation(case, clause, "hash equal to the one recorded for object %d" % j, "different hash")
                            break
                    hashes[i - 1] = h
                elif n == "SetAdd":
                    pyset.add(objs[i - 1])
                    pydict[objs[i - 1]] = i
                    hashes.setdefault(i - 1, hash(objs[i - 1]))
                elif n == "SetLookup":
                    got = (objs[i - 1] in pyset, pydict.get(objs[i - 1]) is not None, objs[i - 1] in list(pyset))
                    want = (e["obs"]["flag"],) * 3
                    if got != want:
                        ctx.violation(case, "LookupFindsEqual", want, got)
                else:
                    env(n, objs)
            except Exception as ex:  # pylint: disable=broad-except
                ctx.violation(case, "NoException", "no exception", type(ex).__name__ + ": " + str(ex)[:80])
                break
        ctx.traces += 1
    if not {"Create", "Hash", "SetAdd", "SetLookup", "AllocKeep", "AllocFree", "Collect"} <= names:
        raise tlc.MachineryFailure("C08: actions never taken: %s" % names)
    ctx.note("history_edges", len(edges))
    ctx.sample({"machine": "C08_HashOrder", "edge": edges[len(edges) // 2]})
    ctx.exhaustive = True

    # ---- relation table of the value universe -----------------------------------------------------
    allv = vals + bases
    real = [make(v) for v in allv]
    events = []
    for a in range(len(allv)):
        for b in range(len(allv)):
            x, y = real[a], real[b]
            ev = {"op": "Rel", "a": a + 1, "b": b + 1, "eq": bool(x == y), "heq": hash(x) == hash(y)}
            if (ev["eq"]) != (not (x != y)):
                ctx.violation({"kind": "pair", "a": tla_value(allv[a]), "b": tla_value(allv[b])}, "EqNeConsistent", "== and != complementary", "both/neither")
            comparable = (allv[a]["kind"] == "Perm" and allv[b]["kind"] == "Perm") or (allv[a]["kind"] in MESH_KINDS and allv[b]["kind"] in MESH_KINDS)
            if comparable:
                try:
                    ev.update({"defined": True, "lt": bool(x < y), "le": bool(x <= y), "gt": bool(x > y), "ge": bool(x >= y)})
                except TypeError:
                    ev.update({"defined": False, "lt": False, "le": False, "gt": False, "ge": False})
            else:
                ev.update({"defined": False, "lt": False, "le": False, "gt": False, "ge": False})
            events.append(ev)
    # a>b iff b<a needs both directions: encode gt of (a,b) as lt of (b,a) in the table check
    for ev in list(events):
        pass
    events.append({"op": "Close", "a": 0, "b": 0})
    perm_idx = [i + 1 for i, v in enumerate(allv) if v["kind"] == "Perm"]
    mesh_idx = [i + 1 for i, v in enumerate(allv) if v["kind"] in MESH_KINDS]
    for pool in (perm_idx, mesh_idx):
        for _ in range(6 if quick else 40):
            inp = [rnd.choice(pool) for _ in range(rnd.randint(3, 12))]
            try:
                out_objs = sorted(real[i - 1] for i in inp)
                # map back by identity of the object list
                idmap = {}
                for i in inp:
                    idmap.setdefault(id(real[i - 1]), i)
                out = [idmap[id(o)] for o in out_objs]
            except TypeError:
                out = []
            events.append({"op": "Sorted", "inp": inp, "out": out})
    mod = util.mc_module("MC_T08", "Trace_C08", {"TValuesDef": "<< " + ", ".join(tla_value(v) for v in allv) + " >>"})
    import os
    import tempfile
    fd, path = tempfile.mkstemp(prefix="verif-trace-", suffix=".json")
    try:
        with os.fdopen(fd, "w") as fh:
            json.dump(events, fh)
        c = util.cfg(init="TInit", next_="TNext", constants={"TValues": ("<-", "TValuesDef")}, invariants=["TraceDone"])
        res = tlc.run_tlc("MC_T08", c, workers=1, timeout=3000, env={"TRACE_FILE": path}, files={"MC_T08.tla": mod}, full_jit=True)
    finally:
        os.unlink(path)
    ctx.add_tlc(res, "relation table validation")
    done = [x for x in res.records if "verdict" in x]
    if len(done) != 1 or done[0]["n"] != len(events):
        raise tlc.MachineryFailure("Trace_C08: trace not fully consumed\n" + res.stdout[-1500:])
    ctx.traces += 1
    ctx.case(n=len(events))
    for ev in events:
        if ev["op"] == "Rel" and ev["a"] != ev["b"]:
            ctx.nontrivial.add(("rel", ev["a"], ev["b"]))
    seen_clauses = set()
    for b in done[0]["verdict"]:
        ev = events[b["i"] - 1]
        desc = {"kind": "pair", "clause": b["clause"]}
        if ev["op"] == "Rel":
            desc.update({"a": tla_value(allv[ev["a"] - 1]), "b": tla_value(allv[ev["b"] - 1]), "observed": ev})
        else:
            desc.update({"event": ev})
        if (b["clause"], ev.get("a"), ev.get("b")) in seen_clauses:
            continue
        seen_clauses.add((b["clause"], ev.get("a"), ev.get("b")))
        ctx.violation(desc, b["clause"], "the law named by the clause (see Trace_C08)", ev)
    ctx.note("values", len(allv))
    ctx.sample({"machine": "Trace_C08", "events": events[len(perm_idx) + 3: len(perm_idx) + 5]})
    ctx.rule = ("history machine: transition tour over all (state, action) edges with two live objects of seven kinds and "
                "environment allocation actions; relation table: every ordered pair of the value universe (non-trivial = "
                "distinct values) and sorted() calls judged by Trace_C08")
    ctx.assumptions.append("allocation histories are those generated by AllocKeep/AllocFree/Collect (tuples, objects, super proxies), not arbitrary allocator states")


def replay(ctx, path):
    raise tlc.MachineryFailure("C08 cases are replayed by re-running the check (the relation table is recomputed from the current code)")
