"""C13 - finiteness, polynomial growth and insertion-encodability verdicts are correct.

spec -> code : (a) every state of C13_Verdicts mode "sets" (all 511 bases over S1..S3 with the counting sequence by
               definition, every singleton of S4/S5 and sampled mixed bases under all eight symmetries, and "filler"
               bases F_t + {p} in which the verdict is decided by one type t of one permutation p of length 4/5)
               replayed through the six functions, the Av methods and the CLI; real verdicts against real Av.count;
               (b) every edge of the history machine (mode "calls": memo tables, earlier calls, order, repetitions)
               replayed with the basis given as list, tuple, set, frozenset, Basis, generator, one-shot iterator,
               map, Av(...) and CLI string, projecting PolyPerms._CACHE / InsertionEncodablePerms._CACHE after
               every call (memo mismatch = DRIFT, wrong verdict = VIOLATION); a transition tour over the cyclic
               full-history machine on a small universe.
code -> spec : one long process-wide history of calls on larger random bases (and their symmetric images), with the
               real counting sequences, judged by Trace_C13; in the same history: whole symmetry orbits of structured
               permutations of length 6-8 asked in shuffled order with the functions in rotating order, bases of 6-10
               elements with repetitions in one-shot forms, finite classes counted beyond their Erdos-Szekeres bound,
               and single questions (Trace_C13 op "Q") through Av objects created before / after clear_cache and
               enumeration, the command line with 0- and 1-based text (in process and as a real command), more
               containers (deque, dict views, reversed, filter, chain, tee'd and half-consumed iterators), degenerate
               bases, and cold processes whose very first call is one function on a basis with elements of length 6-7.
The definitions of module Growth are cross-checked once per run by LibSanity_Growth.
"""
import collections
import concurrent.futures
import contextlib
import gc
import io
import itertools
import json
import subprocess
import sys
import time

from permuta import Av, Basis, Perm
from permuta import cli
from permuta import permutils as pu

from harness import tlc, tour, util

FUNS = ("fin", "poly", "npoly", "ie", "ier", "iem")
REAL = {"fin": lambda b: pu.is_finite(b), "poly": lambda b: pu.is_polynomial(b), "npoly": lambda b: pu.is_non_polynomial(b),
        "ie": lambda b: pu.is_insertion_encodable(b), "ier": lambda b: pu.is_insertion_encodable_rightmost(b),
        "iem": lambda b: pu.is_insertion_encodable_maximum(b)}
NAME = {"fin": "is_finite", "poly": "is_polynomial", "npoly": "is_non_polynomial", "ie": "is_insertion_encodable",
        "ier": "is_insertion_encodable_rightmost", "iem": "is_insertion_encodable_maximum"}
AVM = {"fin": lambda a: a.is_finite(), "poly": lambda a: a.is_polynomial(), "ie": lambda a: a.is_insertion_encodable()}
CLAUSE = {"fin": "VerdictFinite", "poly": "VerdictPolynomial", "npoly": "VerdictNonPolynomial",
          "ie": "VerdictInsertionEncodable", "ier": "VerdictInsertionEncodableRightmost",
          "iem": "VerdictInsertionEncodableMaximum"}
CONTAINERS = ("tuple", "set", "frozenset", "Basis", "generator", "iterator", "map", "list")   # list last: it advances the state
TEN = ("WPP", "WPM", "WMP", "WMM", "WIPP", "WIPM", "WIMP", "WIMM", "L2", "L2I")
FOUR = TEN[:4]
BITS = ("WPM", "WPP", "WMM", "WMP")      # bit i of the cached integer (insertion_encodable.py)
SYMS = ("id", "r1", "r2", "r3", "rev", "comp", "inv", "anti")
FIB = [1, 1]
while len(FIB) < 40:
    FIB.append(FIB[-1] + FIB[-2])
_PERM = {}
_BASIS = {}
_PARSER = []


def P(t):
    t = tuple(t)
    p = _PERM.get(t)
    if p is None:
        p = _PERM[t] = Perm(t)
    return p


def basis_of(seq):
    """Basis(*seq), built by the real code once per distinct sequence (an immutable tuple)."""
    k = tuple(seq)
    b = _BASIS.get(k)
    if b is None:
        if len(_BASIS) > 200000:
            _BASIS.clear()
        b = _BASIS[k] = Basis(*seq)
    return b


class Stream:
    """An iterable that is not an iterator and can be read once only (a reader over an open stream): every iter() continues
    where the last one stopped."""
    def __init__(self, items):
        self._it = iter(list(items))

    def __iter__(self):
        for x in self._it:
            yield x


def build(kind, seq):
    if kind == "list":
        return list(seq)
    if kind == "tuple":
        return tuple(seq)
    if kind == "set":
        return set(seq)
    if kind == "frozenset":
        return frozenset(seq)
    if kind == "Basis":
        return basis_of(seq)
    if kind == "generator":
        return (p for p in seq)
    if kind == "iterator":
        return iter(list(seq))
    if kind == "map":
        return map(Perm, [tuple(p) for p in seq])      # one-shot, yields fresh equal objects
    if kind == "reversed":
        return reversed(list(seq))
    if kind == "filter":
        return filter(None, [None] + list(seq))
    if kind == "chain":
        half = len(seq) // 2
        return itertools.chain(list(seq)[half:], iter(list(seq)[:half]))
    if kind == "deque":
        return collections.deque(seq)
    if kind == "dictkeys":
        return dict.fromkeys(seq).keys()
    if kind == "dictvalues":
        return {i: p for i, p in enumerate(seq)}.values()
    if kind == "setiter":
        return iter(set(seq))
    if kind == "stream":
        return Stream(seq)
    raise ValueError(kind)


def basis_text(seq):
    return "_".join("".join(str(v) for v in p) for p in seq)


def cli_out(cmd, text):
    if not _PARSER:
        _PARSER.append(cli.get_parser())
    args = _PARSER[0].parse_args([cmd, text])
    buf = io.StringIO()
    with contextlib.redirect_stdout(buf):
        args.func(args)
    return buf.getvalue()


def parse_poly(out):
    if "is not polynomial" in out:
        return False
    if "is polynomial" in out:
        return True
    return out


def parse_insenc(out):
    return {"iem": "has a regular topmost insertion encoding" in out,
            "ier": "has a regular rightmost insertion encoding" in out,
            "ie": "does not have a regular insertion encoding" not in out}


TEXTS = (("0-based _", lambda seq: basis_text(seq)),
         ("1-based :", lambda seq: ":".join("".join(str(v + 1) for v in p) for p in seq)),
         ("0-based comma blank", lambda seq: ", ".join("".join(str(v) for v in p) for p in seq)),
         ("1-based blank, reversed", lambda seq: " ".join("".join(str(v + 1) for v in p) for p in reversed(list(seq)))))


def command_line(cmd, text):
    """The command as a user runs it: a new process, permuta.cli.main with sys.argv."""
    return subprocess.Popen([sys.executable, "-c", "import sys; from permuta.cli import main; sys.argv[0] = 'permtools'; main()", cmd, text],
                            stdout=subprocess.PIPE, stderr=subprocess.PIPE, text=True, env=util.hash_env(13))


def cli_poly(seq):
    out = cli_out("poly", basis_text(seq))
    if "is not polynomial" in out:
        return False
    if "is polynomial" in out:
        return True
    return out


def cli_insenc(seq):
    out = cli_out("insenc", basis_text(seq))
    return {"iem": "has a regular topmost insertion encoding" in out,
            "ier": "has a regular rightmost insertion encoding" in out,
            "ie": "does not have a regular insertion encoding" not in out}


# ---- the memo tables, observed from outside ----------------------------------------------------------
class Memo:
    def __init__(self, ctx):
        self.ctx = ctx
        self.ok = True
        self.types = {}     # model tables (from C13_Verdicts mode "perm"): perm -> frozenset of names
        self.props = {}
        self.turn = {}
        self.drifted = set()
        self._vp, self._vi = {}, {}     # projections of table values, by value
        try:
            if not isinstance(pu.PolyPerms._CACHE, dict) or not isinstance(pu.InsertionEncodablePerms._CACHE, dict):
                self.ok = False
        except AttributeError:
            self.ok = False
        if not self.ok:
            ctx.drift("memo tables PolyPerms._CACHE / InsertionEncodablePerms._CACHE are not observable; mechanism checks skipped")

    def tables(self):
        return pu.PolyPerms._CACHE, pu.InsertionEncodablePerms._CACHE

    def clear(self):
        if self.ok:
            for t in self.tables():
                t.clear()

    def snapshot(self):
        return tuple(dict(t) for t in self.tables()) if self.ok else None

    def restore(self, snap):
        if self.ok:
            for t, s in zip(self.tables(), snap):
                t.clear()
                t.update(s)

    def project(self):
        """(pm, im): perm -> frozenset of names; None when a value has an unexpected form.  (Perm keys compare and
        hash like the tuples of the model's tables.)"""
        if not self.ok:
            return None
        try:
            pc, ic = self.tables()
            vp, vi = self._vp, self._vi
            out_p = {}
            for k, v in pc.items():
                w = vp.get(v)
                if w is None:
                    w = vp[v] = frozenset(t.name for t in v)
                out_p[k] = w
            out_i = {}
            for k, v in ic.items():
                w = vi.get(v)
                if w is None:
                    w = vi[v] = frozenset(BITS[i] for i in range(4) if v >> i & 1)
                out_i[k] = w
            return out_p, out_i
        except Exception:  # pylint: disable=broad-except
            self.ok = False
            self.ctx.drift("memo table values have an unexpected form; mechanism checks skipped")
            return None

    def compare(self, what, pd, idom):
        """Real tables against the model state (key sets; values by the definition's tables)."""
        pr = self.project()
        if pr is None:
            return
        want = ({k: self.types[k] for k in pd}, {k: self.props[k] for k in idom})
        if pr != want and what not in self.drifted:
            self.drifted.add(what)
            self.ctx.drift("memo tables differ from the model after %s: poly %s / %s, insenc %s / %s" % (
                what, sorted(pr[0].items())[:6], sorted(want[0].items())[:6], sorted(pr[1].items())[:6], sorted(want[1].items())[:6]))

    def bounds(self, what, frm, elems):
        """Weak check when the iteration order is not one the model enumerated."""
        pr = self.project()
        if pr is None:
            return
        hi_p = set(frm[0]) | set(elems)
        hi_i = set(frm[1]) | set(elems) | {self.turn[e] for e in elems if e in self.turn}
        good = (set(frm[0]) <= set(pr[0]) <= hi_p and set(frm[1]) <= set(pr[1]) <= hi_i
                and all(pr[0][k] == self.types[k] for k in pr[0] if k in self.types)
                and all(pr[1][k] == self.props[k] for k in pr[1] if k in self.props))
        if not good and what not in self.drifted:
            self.drifted.add(what)
            self.ctx.drift("memo tables outside the model's bounds after %s" % what)

    def all_exact(self):
        pr = self.project()
        if pr is None:
            return 0
        n = 0
        for k, v in pr[0].items():
            if k in self.types:
                n += 1
                if v != self.types[k]:
                    self.ctx.drift("PolyPerms._CACHE[%s] = %s, definition %s" % (k, sorted(v), sorted(self.types[k])))
        for k, v in pr[1].items():
            if k in self.props:
                n += 1
                if v != self.props[k]:
                    self.ctx.drift("InsertionEncodablePerms._CACHE[%s] = %s, definition %s" % (k, sorted(v), sorted(self.props[k])))
        return n


# ---- TLC jobs -----------------------------------------------------------------------------------------
INV_LIGHT = ["Implications", "EmitState"]
INV_SETS = ["EnumFiniteEmpty", "EnumInfiniteNeverEmpty", "EnumFibonacci", "SymInvariant", "Implications", "MinimalSame", "EmitState"]
INV_CALLS = ["MemoExact", "VerdictIsFunctionOfSet"]


def tla_sets(bases):
    return "<< " + ", ".join("{" + ", ".join(tlc.tla(list(p)) for p in B) + "}" for B in bases) + " >>"


def job(mode, bases=(), syms=("id",), maxn=-1, maxlen=1, ordermax=3, reps=True, warm=(), maxwarm=0, timeout=3000, light=False):
    defs = {"BasesDef": tla_sets(bases),
            "WarmDef": "<< " + ", ".join(tlc.tla([list(p) for p in s]) for s in warm) + " >>",
            "MaxNDef": "0 - 1" if maxn < 0 else str(maxn), "MaxWarmDef": "0 - 1" if maxwarm < 0 else str(maxwarm)}
    k = {"Mode": '"%s"' % mode, "Bases": ("<-", "BasesDef"), "Syms": "{" + ", ".join('"%s"' % g for g in syms) + "}",
         "MaxN": ("<-", "MaxNDef"), "MaxLen": maxlen, "OrderMax": ordermax, "WithReps": bool(reps),
         "WarmSeqs": ("<-", "WarmDef"), "MaxWarm": ("<-", "MaxWarmDef"),
         "Funs": "{" + ", ".join('"%s"' % f for f in FUNS) + "}"}
    if mode == "calls":
        c = util.cfg(init="Init", next_="Next", invariants=INV_CALLS, properties=["MemoGrows", "MemoLocal"], view="View",
                     action_constraints=["EmitEdge"], constants=k)
    elif mode == "sets":
        c = util.cfg(init="Init", next_="Stutter", invariants=INV_LIGHT if light else INV_SETS, constants=k)
    else:
        c = util.cfg(init="Init", next_="Stutter", invariants=["PermSane", "EmitState"], constants=k)
    return ("MC_C13", c, {"timeout": timeout, "files": {"MC_C13.tla": util.mc_module("MC_C13", "C13_Verdicts", defs)}})


def chunks(items, n):
    return [items[i::n] for i in range(n) if items[i::n]]


def greedy_filler(table, pool, avoid, cover):
    """A small subset of pool (perm tuples) none of which has `avoid` and which together have every name in cover."""
    cand = [p for p in pool if avoid not in table[p]]
    need, out = set(cover), []
    while need:
        best = max(cand, key=lambda p: (len(table[p] & need), -len(p), [-v for v in p]))
        if not table[best] & need:
            raise tlc.MachineryFailure("C13: no filler basis for %s (cannot cover %s)" % (avoid, sorted(need)))
        out.append(best)
        need -= table[best]
    return out


# ---- judging ------------------------------------------------------------------------------------------
def check_verdict(ctx, case, f, want, st, got):
    if st == "raise":
        ctx.violation(case, "NoException", {NAME[f]: want}, {"raised": got})
    elif not isinstance(got, (bool, int)) or bool(got) != want:
        ctx.violation(case, CLAUSE[f], {NAME[f]: want}, {NAME[f]: got})


def real_counts(seq, upto):
    a = Av(basis_of(seq))
    return [a.count(n) for n in range(upto + 1)]


def judge_set(ctx, memo, rec, ncode, stats, twice=False, light=False):
    """One state of mode "sets": the basis as the sorted tuple, every entry point, the real counting sequence."""
    seqt = [tuple(p) for p in rec["seq"]]
    seq = [P(t) for t in seqt]
    v = rec["reply"]["v"]
    case0 = {"kind": "set", "basis": [list(t) for t in seqt]}
    ctx.case(("set", tuple(seqt)), nontrivial=len(seqt) > 1, n=0)
    got_real = {}
    for rnd in range(2 if twice else 1):
        for f in FUNS:
            st, got = util.call(REAL[f], list(seq))
            ctx.case()
            check_verdict(ctx, dict(case0, f=NAME[f], container="list", call=rnd + 1), f, v[f], st, got)
            got_real[f] = got if st == "ok" else None
            stats["verdicts"].add((f, v[f]))
    for f, m in AVM.items():
        if light and f != "poly":
            continue
        st, got = util.call(lambda: m(Av(basis_of(seq))))
        ctx.case()
        check_verdict(ctx, dict(case0, f="Av." + NAME[f], container="Av"), f, v[f], st, got)
    if not light:
        st, got = util.call(cli_poly, seqt)
        ctx.case()
        if st == "raise" or got != v["poly"]:
            ctx.violation(dict(case0, f="cli poly", container="cli"), CLAUSE["poly"], {"poly line": v["poly"]}, got)
        st, got = util.call(cli_insenc, seqt)
        ctx.case()
        if st == "raise" or got != {k: v[k] for k in ("iem", "ier", "ie")}:
            ctx.violation(dict(case0, f="cli insenc", container="cli"), CLAUSE["ie"], {k: v[k] for k in ("iem", "ier", "ie")}, got)
    # the real verdicts against the real enumeration
    counts = rec["reply"]["counts"]
    bound = rec["reply"]["bound"]
    if counts or v["fin"]:
        # (a finite class is cheap at any length; others are counted only where the model enumerated too)
        upto = max(ncode if counts else 0, min(bound + 2, 14) if v["fin"] else 0)
        st, rc = util.call(real_counts, seq, upto)
        ctx.case()
        case = dict(case0, f="Av.count", upto=upto)
        if st == "raise":
            ctx.violation(case, "NoException", "counting sequence", {"raised": rc})
            return
        if got_real["fin"] is not None and bool(got_real["fin"]) and v["fin"]:
            stats["finite"] += 1
            if any(rc[n] != 0 for n in range(bound + 1, upto + 1)):
                ctx.violation(case, "FiniteEmptyBeyondBound", {"bound": bound, "counts beyond": 0}, {"counts": rc})
        if got_real["fin"] is not None and not got_real["fin"] and not v["fin"]:
            stats["infinite"] += 1
            if any(c == 0 for c in rc):
                ctx.violation(case, "InfiniteNeverEmpty", "a positive count at every length", {"counts": rc})
        if got_real["npoly"] is not None and got_real["npoly"] and v["npoly"]:
            stats["nonpoly"] += 1
            if any(rc[n] < FIB[n] for n in range(len(rc))):
                ctx.violation(case, "NonPolynomialAtLeastFibonacci", {"fibonacci": FIB[:len(rc)]}, {"counts": rc})
        if counts and rc[:len(counts)] != counts[:len(rc)] and "counts" not in memo.drifted:
            memo.drifted.add("counts")
            ctx.drift("Av.count differs from the class by definition for %s: %s / %s (property C02, not judged here)" % (seqt, rc, counts))


def skey(st):
    return (tuple(sorted(map(tuple, st["pd"]))), tuple(sorted(map(tuple, st["id"]))), st["d"])


def to_key(e):
    f = skey(e["from"])
    return (tuple(sorted(set(f[0]) | set(map(tuple, e["addp"])))), tuple(sorted(set(f[1]) | set(map(tuple, e["addi"])))), e["d2"])


def after(frm, addp, addi):
    return (set(frm[0]) | set(map(tuple, addp)), set(frm[1]) | set(map(tuple, addi)))


REDUCED = ("set", "Basis", "iterator", "list")


def replay_edge(ctx, memo, e, hist, lookup, stats, do_cli=True, full=True):
    """One (state, call) edge from the real state the model's `from` describes: every container form from that
    same state (the tables are put back to the state reached by the real history), the list form last so that it
    advances the real state."""
    a = e["act"]
    f, want = a["f"], e["v"]
    seqt = [tuple(p) for p in a["seq"]]
    seq = [P(t) for t in seqt]
    frm = skey(e["from"])
    snap = memo.snapshot()
    base = {"kind": "edge", "history": hist, "f": NAME[f], "basis": [list(t) for t in seqt]}
    nvar = 0
    stats["verdicts"].add((f, want))

    def one(kind, thunk, pred):
        nonlocal nvar
        nvar += 1
        st, got = util.call(thunk)
        if st == "raise" or got is not want:
            check_verdict(ctx, dict(base, container=kind), f, want, st, got)
        if memo.ok and pred is not None:
            if pred[0] == "exact":
                memo.compare("%s(%s)" % (NAME[f], kind), pred[1][0], pred[1][1])
            else:
                memo.bounds("%s(%s)" % (NAME[f], kind), frm, seqt)

    bas = e["basis"]
    btuple = [tuple(p) for p in bas["seq"]]
    real_b = [tuple(p) for p in basis_of(seq)]
    bpred = ("exact", after(frm, bas["addp"], bas["addi"])) if real_b == btuple else None
    if bpred is None and "basis-order" not in memo.drifted:
        memo.drifted.add("basis-order")
        ctx.drift("Basis(%s) = %s, model %s (property C05, not judged here)" % (seqt, real_b, btuple))
    for kind in (CONTAINERS if full or len(set(seqt)) <= 3 else REDUCED):
        if nvar:
            memo.restore(snap)
        arg = build(kind, seq)
        if kind in ("set", "frozenset"):
            order = tuple(tuple(p) for p in arg)
            other = lookup.get((frm, f, order))
            pred = ("exact", after(frm, other["addp"], other["addi"])) if other is not None else ("bounds",)
            stats["set-order-known" if other is not None else "set-order-unknown"] += 1
        elif kind == "Basis":
            pred = bpred
        else:
            pred = ("exact", after(frm, e["addp"], e["addi"]))
        if kind == "list":
            # extra forms first, the plain list last
            if f in AVM and (full or do_cli):
                one("Av", lambda: AVM[f](Av(basis_of(seq))), bpred)
                memo.restore(snap)
            if do_cli and f in ("poly", "npoly"):
                nvar += 1
                st, got = util.call(cli_poly, seqt)
                if st == "raise" or got != (want if f == "poly" else not want):
                    ctx.violation(dict(base, container="cli poly"), CLAUSE["poly"], {"poly line": want if f == "poly" else not want}, got)
                memo.restore(snap)
            if do_cli and f in ("ie", "ier", "iem"):
                nvar += 1
                st, got = util.call(cli_insenc, seqt)
                if st == "raise" or got[f] != want:
                    ctx.violation(dict(base, container="cli insenc"), CLAUSE[f], {f: want}, got)
                memo.restore(snap)
        one(kind, lambda: REAL[f](arg), pred)
    ctx.case(("edge", frm, f, tuple(seqt)), nontrivial=len(set(seqt)) > 1 and (len(frm[0]) + len(frm[1]) > 0), n=nvar)
    stats["variants"] += nvar


def weak_hash_events(ctx):
    """Run in the weak-hash interpreter (harness/weakhash.py): every verdict on bases that share elements, in one process in
    which permutations collide in the memo tables all the time."""
    rnd = util.rng(ctx, 1399)
    events = []
    pool = [rand_basis(rnd, 6) for _ in range(40)]
    for i in range(120):
        B = list(rnd.choice(pool))
        if rnd.random() < 0.5:                                  # an element of another basis joins: memo entries are shared
            B.append(rnd.choice(rnd.choice(pool)))
        if rnd.random() < 0.3:
            B.append(tuple(structured(rnd, rnd.choice([6, 7]))))
        perms = [Perm(p) for p in B]
        for f in FUNS:
            st, got = util.call(REAL[f], list(perms))
            if st == "raise" or not isinstance(got, (bool, int)):
                ctx.violation({"kind": "event", "basis": [list(p) for p in B], "f": NAME[f]}, "NoException", "a verdict", got)
            else:
                events.append({"op": "Q", "basis": [list(p) for p in B], "f": f, "res": bool(got), "via": "weak-hash interpreter"})
    return events


def run(ctx):
    weak = util.weak_hash_start(ctx, "c13", "weak_hash_events")
    quick = ctx.tier == "quick"
    rnd = util.rng(ctx, 13)
    memo = Memo(ctx)
    phases, t_last = {}, [time.time(), time.process_time()]

    def lap(name):
        phases[name] = {"wall": round(time.time() - t_last[0], 1), "cpu_of_harness": round(time.process_time() - t_last[1], 1)}
        t_last[0], t_last[1] = time.time(), time.process_time()
        ctx.note("phase_seconds", phases)
    stats = {"verdicts": set(), "finite": 0, "infinite": 0, "nonpoly": 0, "variants": 0, "set-order-known": 0, "set-order-unknown": 0}
    small = [p for n in (1, 2, 3) for p in util.perms_of(n)]
    long45 = [p for n in (4, 5) for p in util.perms_of(n)]
    allsets = [c for k in range(1, 10) for c in itertools.combinations(small, k)]
    ncode = 7 if quick else 8
    cold = []
    pool = concurrent.futures.ThreadPoolExecutor(max_workers=17)
    submit = lambda j: pool.submit(tlc.run_tlc, j[0], j[1], **j[2])
    try:
        fut_sanity = pool.submit(tlc.run_tlc, "LibSanity_Growth", util.cfg(init="Init", next_="Next"), timeout=3000)
        # ---- 1. the per-permutation tables of the model (types, run shapes, quarter turns) ---------------
        r = submit(job("perm", maxlen=5)).result()
        ctx.add_tlc(r, "per-permutation types and run shapes by definition, lengths 1..5")
        if len(r.records) != 153:
            raise tlc.MachineryFailure("C13: %d permutation records, expected 153" % len(r.records))
        tprops = {}
        for rec in r.records:
            p = tuple(rec["seq"][0])
            memo.types[p] = frozenset(rec["reply"]["types"])
            memo.props[p] = frozenset(rec["reply"]["props"])
            memo.turn[p] = tuple(rec["reply"]["turn"])
            tprops[p] = frozenset(rec["reply"]["tprops"])
        ctx.sample({"machine": "C13_Verdicts", "mode": "perm", "state": r.records[40]})
        # ---- 2. universes -------------------------------------------------------------------------------
        fill_pool = [p for p in small + long45 if 3 <= len(p) <= 4]
        fillers = []          # (name, decisive function, filler basis)
        for t in TEN:
            fillers.append((t, "poly", greedy_filler(memo.types, fill_pool, t, set(TEN) - {t})))
        for t in FOUR:
            fillers.append((t, "ier", greedy_filler(memo.props, fill_pool, t, set(FOUR) - {t})))
            fillers.append((t, "iem", greedy_filler(tprops, fill_pool, t, set(FOUR) - {t})))
        cold = cold_start(util.rng(ctx, 1313), quick, fillers)
        filler_sets, filler_meta = [], {}
        for t, f, F in fillers:
            for p in long45:
                B = tuple(sorted(set(F) | {p}, key=lambda x: (len(x), x)))
                filler_sets.append(B)
                table = memo.types if f == "poly" else memo.props if f == "ier" else tprops
                filler_meta.setdefault(B, []).append((t, f, p, t in table[p]))
        filler_sets = sorted(set(filler_sets))
        mixed = []
        for _ in range(40 if quick else 200):
            B = set(rnd.sample(long45, rnd.choice([1, 2, 2, 3]))) | set(rnd.sample(small[3:], rnd.choice([0, 0, 1, 2])))
            mixed.append(tuple(sorted(B, key=lambda x: (len(x), x))))
        singles = [(p,) for p in long45]
        enum_sample = []
        for _ in range(48 if quick else 160):
            B = set(rnd.sample(long45[:24] * 2 + long45[24:], rnd.choice([1, 1, 2]))) | set(rnd.sample(small[3:], rnd.choice([0, 1, 1, 2])))
            enum_sample.append(tuple(sorted(B, key=lambda x: (len(x), x))))
        # forced finite ones with a long monotone element
        enum_sample += [((1, 0), (0, 1, 2, 3, 4)), ((0, 1, 2), (3, 2, 1, 0), (1, 3, 0, 2)), ((3, 2, 1, 0), (0, 1, 2, 3)),
                        ((2, 1, 0), (0, 1, 2, 3, 4), (0, 2, 1, 3))]
        warm1 = [[(0, 1, 2), (0, 2, 1)]]
        warm3 = warm1 + [[(1, 2, 0), (2, 0, 1), (1, 0)], [(2, 1, 0)]]
        warm4 = warm3 + [[(1, 0, 2), (0, 1), (2, 1, 0), (0, 2, 1)]]
        four_sets = [c for c in allsets if len(c) == 4]
        four_all = four_sets if not quick else rnd.sample(four_sets, 6)
        pairs = [c for c in allsets if len(c) <= 2]
        jobs = []
        for ch in chunks(allsets, 8 if quick else 16):
            jobs.append(("sets-small", job("sets", ch, maxn=6 if quick else 7)))
        for ch in chunks(singles + mixed, 4):
            jobs.append(("sets-sym", job("sets", ch, syms=SYMS)))
        for ch in chunks(enum_sample, 4 if quick else 8):
            jobs.append(("sets-enum", job("sets", ch, maxn=6)))
        for ch in chunks(filler_sets, 8):
            jobs.append(("sets-filler", job("sets", ch, light=True)))
        # the big call universe: every basis over S1..S3, from every memo state one earlier call leads to
        # (quick: one earlier basis, 4 memo states; thorough: three earlier bases, 10 memo states)
        for ch in chunks(allsets, 10 if quick else 16):
            jobs.append(("calls", job("calls", ch, ordermax=3, reps=not quick, warm=warm1 if quick else warm3, maxwarm=1)))
        # bases of one or two elements from more memo states (thorough: after up to two earlier calls out of four)
        for ch in chunks(pairs, 3 if quick else 8):
            jobs.append(("calls", job("calls", ch, ordermax=3, reps=True, warm=warm3[:2] if quick else warm4, maxwarm=1 if quick else 2)))
        # every order of four-element bases
        for ch in chunks(four_all, 2 if quick else 16):
            jobs.append(("calls", job("calls", ch, ordermax=4, reps=False, warm=warm1, maxwarm=1)))
        # calls on bases with long elements (every order of up to three elements)
        for ch in chunks(mixed[:12 if quick else 60], 2 if quick else 8):
            jobs.append(("calls", job("calls", ch, ordermax=3, reps=True, warm=warm1 if quick else warm3, maxwarm=1)))
        # memo entries of related permutations: a call on one symmetric image of p after earlier calls on other images
        # (the quarter turn of an element is a key of the run-shape table, so images share entries)
        for p in rnd.sample(long45[:24], 1 if quick else 4) + rnd.sample(long45[24:], 1 if quick else 4):
            orbit = sorted({tuple(REAL_SYM[g](P(p))) for g in SYMS})
            jobs.append(("calls", job("calls", [(p,)], syms=SYMS, ordermax=1, reps=False, warm=[[q] for q in orbit], maxwarm=1)))
        # the cyclic full-history machine on a small universe: every call may follow every call
        hist_el = [(0, 2, 1), (2, 0, 1)] if quick else [(0, 2, 1), (2, 0, 1), (1, 0)]
        hist_seqs = [[a] for a in hist_el] + [[a, b] for a in hist_el for b in hist_el if a != b] + [[hist_el[0], hist_el[0]], [hist_el[1], hist_el[0], hist_el[1]]]
        jobs.append(("history", job("calls", (), warm=hist_seqs, maxwarm=-1)))
        futs = [(what, submit(j)) for what, j in jobs]
        results = [(what, f.result()) for what, f in futs]
        # no expectation is compared with the code before the definitions have passed their cross-checks
        r = fut_sanity.result()
        ctx.add_tlc(r, "LibSanity_Growth: literature bases of the ten classes, counting sequences, theorems against enumeration")
    finally:
        pool.shutdown(wait=False)

    gc.collect()
    gc.freeze()        # the emitted records stay alive for the whole run: keep them out of later collections
    lap("tlc (sharded, side by side)")
    # ---- 3. the input universe -----------------------------------------------------------------------------
    memo.clear()
    nsets = 0
    decided = {}
    for what, r in results:
        if not what.startswith("sets"):
            continue
        ctx.add_tlc(r, "input universe (%s)" % what)
        if len(r.records) != r.distinct or not r.records:
            raise tlc.MachineryFailure("C13: %d records for %d states (%s)" % (len(r.records), r.distinct, what))
        for rec in r.records:
            nsets += 1
            judge_set(ctx, memo, rec, ncode if what == "sets-small" else 6, stats, twice=what == "sets-filler", light=what == "sets-filler")
            if what == "sets-filler":
                for t, f, p, member in filler_meta.get(tuple(tuple(x) for x in rec["seq"]), ()):
                    # the model's verdict for the filler basis must be decided by the one type of p
                    if rec["reply"]["v"][f] != member:
                        raise tlc.MachineryFailure("C13: filler basis for %s/%s not decisive: %s" % (t, f, rec))
                    decided.setdefault((t, f), set()).add(member)
            if nsets in (7, 300, 2000):
                ctx.sample({"machine": "C13_Verdicts", "mode": "sets", "state": rec})
    if any(v != {True, False} for v in decided.values()) or len(decided) != 18:
        raise tlc.MachineryFailure("C13: a type is never decisive in the filler universe: %s" % decided)
    ctx.note("input_universe", {"bases": nsets, "small_sets": len(allsets), "singletons_S4_S5_x8": len(singles) * 8,
                                "filler_bases": len(filler_sets), "enum_sample": len(enum_sample), "mixed_x8": len(mixed) * 8,
                                "finite_with_counts": stats["finite"], "infinite_with_counts": stats["infinite"],
                                "nonpolynomial_with_counts": stats["nonpoly"]})
    checked = memo.all_exact()
    ctx.note("memo_entries_checked_after_input_universe", checked)

    lap("replay input universe")
    # ---- 4. the history machine: layered graph (earlier calls, then one call of the big universe) -------------
    edges, seen = [], set()
    for what, r in results:
        if what != "calls":
            continue
        ctx.add_tlc(r, "history machine shard (memo tables, earlier calls, orders, repetitions)")
        if not r.records:
            raise tlc.MachineryFailure("C13: a calls shard emitted no edges")
        for e in r.records:
            k = (skey(e["from"]), e["act"]["f"], tuple(map(tuple, e["act"]["seq"])), e["act"]["warm"])
            if k not in seen:
                seen.add(k)
                edges.append(e)
    lookup = {(skey(e["from"]), e["act"]["f"], tuple(map(tuple, e["act"]["seq"]))): e for e in edges}
    out = {}
    for e in edges:
        out.setdefault(skey(e["from"]), []).append(e)
    init = ((), (), 0)
    parent = {init: None}
    order = [init]
    for s in order:
        for e in out.get(s, ()):
            if e["act"]["warm"]:
                t = to_key(e)
                if t not in parent:
                    parent[t] = (s, e)
                    order.append(t)
    if set(out) - set(parent):
        raise tlc.MachineryFailure("C13: %d states with edges are not reachable through earlier calls" % len(set(out) - set(parent)))
    if len(order) < 5:
        raise tlc.MachineryFailure("C13: only %d memo states" % len(order))
    cli_state = max(order, key=lambda k: (len(k[0]) > 0 and len(k[1]) == 0, len(k[0])))     # a state with a poly memo
    cli_state2 = max(order, key=lambda k: len(k[1]))
    for s in order:
        path = []
        x = s
        while parent[x] is not None:
            x, e = parent[x]
            path.append(e)
        path.reverse()
        memo.clear()
        hist = []
        for e in path:
            st, _ = util.call(REAL[e["act"]["f"]], [P(t) for t in e["act"]["seq"]])
            hist.append({"f": NAME[e["act"]["f"]], "basis": e["act"]["seq"], "container": "list"})
        memo.compare("the earlier calls %s" % [h["f"] for h in hist], s[0], s[1])
        snap = memo.snapshot()
        for e in out.get(s, ()):
            memo.restore(snap)
            replay_edge(ctx, memo, e, hist, lookup, stats, full=s == init or not quick,
                        do_cli=not quick or s == init or (s in (cli_state, cli_state2) and len(e["act"]["seq"]) <= 2))
        ctx.traces += 1
    ctx.note("history_machine", {"memo_states": len(order), "edges": len(edges), "container_variants": stats["variants"]})
    ctx.sample({"machine": "C13_Verdicts", "mode": "calls", "edge": edges[len(edges) // 3]})

    lap("replay history machine")
    # ---- 5. the cyclic full-history machine: transition tour ----------------------------------------------------
    hres = [r for what, r in results if what == "history"][0]
    ctx.add_tlc(hres, "full-history machine on a small universe (every call may follow every call)")
    hedges = hres.records
    hlookup = {(skey(e["from"]), e["act"]["f"], tuple(map(tuple, e["act"]["seq"]))): e for e in hedges}
    paths = tour.tours(hedges, tour.key(list(init)), get_from=lambda e: list(skey(e["from"])), get_to=lambda e: list(to_key(e)), max_path=400)
    longest = 0
    for path in paths:
        memo.clear()
        hist = []
        for idx in path:
            e = hedges[idx]
            replay_edge(ctx, memo, e, list(hist[-12:]), hlookup, stats, do_cli=False)
            t = to_key(e)
            memo.compare("a tour step %s" % NAME[e["act"]["f"]], t[0], t[1])
            hist.append({"f": NAME[e["act"]["f"]], "basis": e["act"]["seq"], "container": "list"})
        longest = max(longest, len(path))
        ctx.traces += 1
    ctx.note("full_history_machine", {"states": hres.distinct, "edges": len(hedges), "tour_paths": len(paths), "longest_path": longest})
    if len(hedges) < 100 or hres.distinct < 8:
        raise tlc.MachineryFailure("C13: full-history machine too small (%d states, %d edges)" % (hres.distinct, len(hedges)))
    missing = [(f, b) for f in FUNS for b in (True, False) if (f, b) not in stats["verdicts"]]
    if missing:
        raise tlc.MachineryFailure("C13: verdicts never produced: %s" % missing)
    ctx.exhaustive = True

    lap("replay full-history tour")
    # ---- 6. code -> spec: one long history on larger random bases --------------------------------------------------
    head, tail = record_probes(ctx, memo, util.rng(ctx, 131313), quick, 7 if quick else 8, cold, fillers)
    events = head + record_trace(ctx, memo, rnd, 150 if quick else 1200, 60 if quick else 400, 7 if quick else 8) + tail
    events += util.weak_hash_finish(ctx, weak, "c13")
    ctx.note("trace_events", dict(collections.Counter(e["op"] for e in events)))
    ctx.note("single_questions_via", dict(collections.Counter(e["via"].split(",")[0] for e in events if e["op"] == "Q")))
    v = util.validate_trace(ctx, "Trace_C13", events, timeout=3000)
    ctx.case(n=len(events))
    for ev in events:
        if len(ev["basis"]) > 1:
            ctx.nontrivial.add(("trace", json.dumps(ev["basis"]), ev.get("via", "")))
    for b in v["verdict"]:
        ev = events[b["i"] - 1]
        ctx.violation({"kind": "event", "index": b["i"], "event": {k: ev[k] for k in ev if k not in ("pmemo", "imemo")}}, b["clause"],
                      "verdict of the structure theorem / consistency with the recorded counts (see clause in Trace_C13)",
                      {k: ev[k] for k in ("v", "vimg", "counts", "res") if k in ev})
    for b in v["drift"][:3]:
        ctx.drift("trace event %d: %s %s" % (b["i"], b["clause"], json.dumps(events[b["i"] - 1])[:300]))
    ctx.sample({"machine": "Trace_C13", "events": events[:2]})
    ctx.note("memo_entries_checked_at_end", memo.all_exact())

    lap("trace recording + validation")
    ctx.rule = ("input universe: every non-empty basis over S1..S3 (counting sequence by definition up to length %d), every singleton "
                "of S4/S5 and sampled mixed bases under the eight symmetries, filler bases F_t + {p} for all p in S4/S5 and all "
                "18 types/run shapes t; each replayed through six functions, Av methods and CLI, and real verdicts against real "
                "Av.count; history machine: every (memo state, function, iterated sequence) edge - all orders of <= 3 elements "
                "of every such basis, all orders of %d four-element bases, repetitions, sorted/reversed orders of larger ones - "
                "from the memo states reachable by one earlier call (bases of <= 2 elements: %d), in 8 container forms + Av + CLI "
                "(quick tier: bases of > 3 elements from non-initial memo states in 4 forms, CLI from the initial state and for short "
                "sequences from two more states); transition tour of the "
                "cyclic full-history machine; non-trivial = basis with >= 2 elements (and a non-empty memo for edges); plus a long "
                "recorded history on random bases judged by Trace_C13 (with symmetry orbits of long structured permutations, bases "
                "of 6-10 elements, finite classes counted beyond their bound, and single questions through Av objects around "
                "clear_cache, the command line in four spellings, further containers, lazy arguments, degenerate bases and cold "
                "processes)" % (6 if quick else 7, len(four_all), 1 if quick else 2))
    ctx.assumptions.append("the initial state of the history machine (a fresh process) is realised by emptying the two memo dicts; "
                           "container forms of one edge are all started from the memo state reached by the real earlier calls "
                           "(the dicts are put back to that state between forms)")
    ctx.assumptions.append("the projection of the memo tables reads PolyPerms._CACHE (values: sets of PermType) and "
                           "InsertionEncodablePerms._CACHE (values: 4-bit integers); disagreement there is DRIFT only")


# ---- code -> spec ---------------------------------------------------------------------------------------------
def proj_entries(memo, seq):
    pr = memo.project()
    if pr is None:
        return [], []
    pmemo = [{"p": list(p), "v": sorted(pr[0][tuple(p)])} for p in seq if tuple(p) in pr[0]]
    keys = {tuple(p) for p in seq} | {tuple(Perm(p).rotate()) for p in seq}
    imemo = [{"p": list(k), "v": sorted(pr[1][k])} for k in sorted(keys) if k in pr[1]]
    return pmemo, imemo


def verdicts_of(mk, order=FUNS):
    out = {}
    for f in order:
        st, got = util.call(REAL[f], mk())
        out[f] = bool(got) if st == "ok" else None
    return out


def counts_guarded(seq, upto, cap=5000):
    """Av(seq).count(0..upto), stopping early once a level is larger than cap (only a class wrongly declared
    finite gets there)."""
    a = Av(basis_of(seq))
    out = []
    for n in range(upto + 1):
        out.append(a.count(n))
        if out[-1] > cap:
            break
    return out


def v_event(ctx, memo, seq, ncount, mk=None, order=FUNS, beyond=False):
    perms = [Perm(p) for p in seq]
    v = verdicts_of(mk or (lambda: list(perms)), order)
    if any(x is None for x in v.values()):
        ctx.violation({"kind": "event", "basis": [list(p) for p in seq]}, "NoException", "six verdicts", v)
        return None
    longest = max(len(p) for p in seq)
    n = ncount if longest <= 5 else ncount - 1
    if beyond and v["fin"]:
        # a class declared finite is counted well beyond any Erdos-Szekeres bound of its basis (empty levels are free)
        st, counts = util.call(counts_guarded, perms, 18)
    else:
        st, counts = util.call(real_counts, perms, n)
    if st == "raise":
        ctx.violation({"kind": "event", "basis": [list(p) for p in seq]}, "NoException", "counting sequence", counts)
        return None
    pmemo, imemo = proj_entries(memo, seq)
    return {"op": "V", "basis": [list(p) for p in seq], "v": v, "counts": counts, "pmemo": pmemo, "imemo": imemo}


REAL_SYM = {"id": lambda p: p, "r1": lambda p: p.rotate(1), "r2": lambda p: p.rotate(2), "r3": lambda p: p.rotate(3),
            "rev": lambda p: p.reverse(), "comp": lambda p: p.complement(), "inv": lambda p: p.inverse(),
            "anti": lambda p: p.flip_antidiagonal()}


def rand_basis(rnd, maxlen):
    kind = rnd.random()
    k = rnd.choice([1, 2, 2, 3, 3, 4, 5])
    B = [util.rand_perm(rnd, rnd.choice([2, 3, 3, 4, 4, 5, 5, 6, maxlen])) for _ in range(k)]
    if kind < 0.35:       # make finiteness likely
        B.append(tuple(range(rnd.choice([2, 3, 3, 4]))))
        n = rnd.choice([2, 3, 3, 4])
        B.append(tuple(range(n - 1, -1, -1)))
    elif kind < 0.6:      # structured elements: juxtapositions and layered ones
        for _ in range(rnd.choice([1, 2, 3])):
            n = rnd.choice([4, 5, 6])
            a = sorted(rnd.sample(range(n), rnd.randint(1, n - 1)))
            b = sorted(set(range(n)) - set(a))
            a = a if rnd.random() < 0.5 else a[::-1]
            b = b if rnd.random() < 0.5 else b[::-1]
            p = tuple(a + b)
            if rnd.random() < 0.5:
                p = tuple(Perm(p).inverse())
            B.append(p)
    if rnd.random() < 0.3:
        B.append(B[0])     # repetition
    rnd.shuffle(B)
    return B


def layered_like(rnd, n):
    """Direct sum of decreasing blocks / skew sum of increasing blocks with a random (usually non-palindromic)
    block sequence of sizes 1 and 2 - the shapes the two layered-type minimal classes are made of."""
    sizes = []
    while sum(sizes) < n:
        sizes.append(min(rnd.choice([1, 2, 2]), n - sum(sizes)))
    skew = rnd.random() < 0.5
    out, lo = [], 0
    if not skew:
        for sz in sizes:                       # layered: blocks increase, each block decreasing
            out += list(range(lo + sz - 1, lo - 1, -1))
            lo += sz
    else:
        hi = n
        for sz in sizes:                       # skew sum of increasing blocks
            out += list(range(hi - sz, hi))
            hi -= sz
    return tuple(out)

# ---- single questions and special histories (all judged by Trace_C13) ---------------------------------------------
COLD = r"""
import json, sys
from permuta import Av, Basis, Perm
from permuta import permutils as pu
REAL = {"fin": pu.is_finite, "poly": pu.is_polynomial, "npoly": pu.is_non_polynomial, "ie": pu.is_insertion_encodable,
        "ier": pu.is_insertion_encodable_rightmost, "iem": pu.is_insertion_encodable_maximum}
AVM = {"fin": lambda a: a.is_finite(), "poly": lambda a: a.is_polynomial(), "ie": lambda a: a.is_insertion_encodable()}
basis = [tuple(p) for p in json.loads(sys.argv[1])]
via = sys.argv[3]
def arg():
    perms = [Perm(p) for p in basis]
    return {"list": lambda: perms, "iterator": lambda: iter(perms), "tuple": lambda: tuple(perms), "Basis": lambda: Basis(*perms)}[via]()
out = []
for f in json.loads(sys.argv[2]):
    try:
        out.append([f, "ok", bool(AVM[f](Av(Basis(*[Perm(p) for p in basis]))) if via == "Av" else REAL[f](arg()))])
    except Exception as e:
        out.append([f, "raise", type(e).__name__])
print(json.dumps(out))
"""


def structured(rnd, n):
    """Layered shapes, juxtapositions of two monotone sequences (or their inverses), monotone or random permutations."""
    k = rnd.random()
    if k < 0.35:
        return layered_like(rnd, n)
    if k < 0.75:
        a = sorted(rnd.sample(range(n), rnd.randint(1, n - 1)))
        b = sorted(set(range(n)) - set(a))
        a = a if rnd.random() < 0.5 else a[::-1]
        b = b if rnd.random() < 0.5 else b[::-1]
        p = tuple(a + b)
        return tuple(Perm(p).inverse()) if rnd.random() < 0.5 else p
    if k < 0.85:
        return tuple(range(n)) if rnd.random() < 0.5 else tuple(range(n - 1, -1, -1))
    return util.rand_perm(rnd, n)


def aimed(rnd, t, n):
    """A permutation of length n that is likely of the structural type named t (an input generator, not an oracle:
    TLC decides)."""
    if t in ("L2", "L2I"):
        sizes = []
        while sum(sizes) < n:
            sizes.append(min(rnd.choice([1, 2, 2]), n - sum(sizes)))
        out, lo = [], 0
        for sz in sizes:
            out += list(range(lo + sz - 1, lo - 1, -1))
            lo += sz
        return tuple(out) if t == "L2" else tuple(reversed(out))
    a = sorted(rnd.sample(range(n), rnd.randint(2, n - 2)))
    b = sorted(set(range(n)) - set(a))
    sign = t[-2:]
    p = tuple((a if sign[0] == "P" else a[::-1]) + (b if sign[1] == "P" else b[::-1]))
    return tuple(Perm(p).inverse()) if t.startswith("WI") else p


def cold_start(rnd, quick, fillers):
    """Cold processes: the very first call of the process is one function on a basis with elements of length 6-7 (then
    the other functions follow).  The bases are a filler basis F_t of short elements having every type but t (computed
    from the model's tables) plus a long permutation aimed at t, listed first: the long element decides the verdict.
    Started early, collected by record_probes."""
    out = []
    vias = ("list", "iterator", "Av", "tuple", "Basis", "list")
    for i in range(5 if quick else 18):
        t, fdec, F = fillers[(3 * i + rnd.randrange(3)) % len(fillers)]
        B = [aimed(rnd, t, rnd.choice([6, 7]))] + list(F)
        if i % 3 == 2:
            B.insert(1, structured(rnd, 6))
        for k, first in enumerate(FUNS):
            via = vias[(i + k) % len(vias)]
            order = [first] + [f for f in FUNS[k + 1:] + FUNS[:k]]
            if via == "Av":
                order = [f for f in order if f in AVM] if first in AVM else []
            if order:
                argv = [sys.executable, "-c", COLD, json.dumps([list(p) for p in B]), json.dumps(order), via]
                out.append((B, via, subprocess.Popen(argv, stdout=subprocess.PIPE, stderr=subprocess.PIPE, text=True, env=util.hash_env(130 + len(out)))))
    return out


def record_probes(ctx, memo, rnd, quick, ncount, cold, decisive):
    """(head, tail): events recorded before and after the long random history of record_trace."""
    head, tail = [], []
    scale = 1 if quick else 6

    def ask(events, seq, f, thunk, via):
        st, got = util.call(thunk)
        if st == "raise" or not isinstance(got, (bool, int)):
            ctx.violation({"kind": "event", "basis": [list(p) for p in seq], "f": NAME[f], "container": via}, "NoException", "a verdict", got)
            return
        events.append({"op": "Q", "basis": [list(p) for p in seq], "f": f, "res": bool(got), "via": via})

    # -- the real command line, started now and read at the end
    cmds = []
    for i in range(3 if quick else 10):
        B = rand_basis(rnd, 6)
        name, mk = TEXTS[i % len(TEXTS)]
        cmds.append((B, "poly", name, command_line("poly", mk(B))))
        cmds.append((B, "insenc", name, command_line("insenc", mk(B))))
    # -- degenerate bases: no element at all, the empty permutation, the point
    for B in ([], [()], [(0,)], [(), (1, 0)], [(), ()]):
        for k, f in enumerate(FUNS):
            perms = [Perm(p) for p in B]
            form = ("list", "iterator", "set", "generator", "tuple", "deque")[k]
            ask(head, B, f, lambda: REAL[f](build(form, perms)), form)
    # -- a reader that can be read once (iterable, not an iterator): finite bases with their monotone elements in every order
    for B in itertools.permutations([(0, 1, 2), (2, 1, 0), (0, 2, 1)]):
        for f in FUNS:
            perms = [Perm(p) for p in B]
            ask(head, list(B), f, lambda: REAL[f](Stream(perms)), "stream")
    for B in ([(1, 0), (0, 1, 2, 3)], [(0, 1, 2, 3), (1, 0)], [(0, 1), (3, 2, 1, 0), (1, 0, 2)], [(2, 0, 1), (0, 1)], [(0,), (1, 2, 0)]):
        perms = [Perm(p) for p in B]
        ask(head, list(B), "fin", lambda: REAL["fin"](Stream(perms)), "stream")
        ask(head, list(B), "poly", lambda: REAL["poly"](Stream(perms)), "stream")
    # -- whole symmetry orbits of a structured long permutation, images in shuffled order, functions in rotating order
    # (the other elements: a filler basis of short elements having every type but one, so that the long element
    # often decides the verdict; every third orbit with an arbitrary small filler)
    plain = [[(0, 1, 2), (1, 0, 2)], [(2, 1, 0), (1, 2, 0)], [(0, 2, 1)], []]
    for i in range(10 * scale):
        t, fdec, F = decisive[(i * 5 + rnd.randrange(5)) % len(decisive)]
        q = Perm(aimed(rnd, t, rnd.choice([6, 7, 7, 8])) if i % 3 else structured(rnd, rnd.choice([6, 7, 7, 8])))
        imgs = [tuple(REAL_SYM[g](q)) for g in SYMS]
        rnd.shuffle(imgs)
        for j, img in enumerate(imgs):
            B = (list(F) if i % 3 else plain[i % len(plain)]) + [img]
            k = (i + j) % 6
            ev = v_event(ctx, memo, B, 5, order=FUNS[k:] + FUNS[:k])
            if ev is not None:
                ev["form"] = "orbit"
                tail.append(ev)
    # -- bases of 6-10 elements with repeated elements, in one-shot and unordered forms
    forms = ("generator", "iterator", "map", "set", "frozenset", "filter", "chain", "setiter", "dictvalues", "deque", "reversed", "dictkeys", "stream", "stream")
    for i in range(12 * scale):
        B = [structured(rnd, rnd.choice([3, 4, 4, 5, 5, 6, 7])) if rnd.random() < 0.6 else util.rand_perm(rnd, rnd.choice([3, 4, 5, 6]))
             for _ in range(rnd.randint(6, 10))]
        B += [rnd.choice(B) for _ in range(rnd.randint(1, 3))]
        rnd.shuffle(B)
        perms = [Perm(p) for p in B]
        form = forms[i % len(forms)]
        ev = v_event(ctx, memo, B, ncount, mk=lambda: build(form, perms))
        if ev is not None:
            ev["form"] = form
            tail.append(ev)
    # -- finite classes, counted beyond the Erdos-Szekeres bound of their basis
    for i in range(10 * scale):
        a, b = rnd.choice([(2, 5), (3, 3), (3, 4), (4, 3), (4, 4), (3, 5), (5, 3), (2, 7), (6, 2), (3, 4)])
        B = [tuple(range(a)), tuple(range(b - 1, -1, -1))] + [util.rand_perm(rnd, rnd.choice([3, 4, 5, 6])) for _ in range(rnd.choice([0, 0, 1, 2]))]
        if i % 3 == 0:
            B.append(tuple(range(a + 1)))            # a longer monotone element must not change the bound
        rnd.shuffle(B)
        ev = v_event(ctx, memo, B, ncount, beyond=True)
        if ev is not None:
            ev["form"] = "finite, counted to length %d" % (len(ev["counts"]) - 1)
            tail.append(ev)
    # -- class objects created before / after enumeration and clear_cache
    for i in range(8 * scale):
        B = rand_basis(rnd, 6)
        perms = [Perm(p) for p in B]
        st, a = util.call(lambda: Av(Basis(*perms)))
        if st == "raise":
            ctx.violation({"kind": "event", "basis": [list(p) for p in B], "container": "Av"}, "NoException", "a class object", a)
            continue
        for f, m in AVM.items():
            ask(tail, B, f, lambda: m(a), "Av object")
        util.call(a.count, 4 + i % 3)
        for f, m in AVM.items():
            ask(tail, B, f, lambda: m(a), "Av object after enumeration")
        Av.clear_cache()
        for f, m in AVM.items():
            ask(tail, B, f, lambda: m(a), "Av object created before clear_cache")
        for f, m in AVM.items():
            ask(tail, B, f, lambda: m(Av(Basis(*perms))), "Av object created after clear_cache")
        ask(tail, B, "poly", lambda: Av(iter(perms)).is_polynomial(), "Av(iterator)")
        ask(tail, B, "ie", lambda: Av(set(perms)).is_insertion_encodable(), "Av(set)")
        ask(tail, B, "fin", lambda: Av.from_iterable(p for p in perms).is_finite(), "Av.from_iterable(generator)")
    # -- the command line functions with the basis written 0-based / 1-based with several separators
    for i in range(8 * scale):
        B = rand_basis(rnd, 7)
        for name, mk in TEXTS:
            text = mk(B)
            st, out = util.call(cli_out, "poly", text)
            got = parse_poly(out) if st == "ok" else None
            if st == "raise" or not isinstance(got, bool):
                ctx.violation({"kind": "event", "basis": [list(p) for p in B], "f": "cli poly", "container": name}, "NoException", "a poly line", out)
            else:
                tail.append({"op": "Q", "basis": [list(p) for p in B], "f": "poly", "res": got, "via": "cli poly, " + name})
            st, out = util.call(cli_out, "insenc", text)
            if st == "raise":
                ctx.violation({"kind": "event", "basis": [list(p) for p in B], "f": "cli insenc", "container": name}, "NoException", "insenc lines", out)
            else:
                for f, got in parse_insenc(out).items():
                    tail.append({"op": "Q", "basis": [list(p) for p in B], "f": f, "res": got, "via": "cli insenc, " + name})
    # -- lazy arguments: tee'd iterators, a half-consumed iterator (the rest is the basis), two generators alive at once
    for i in range(10 * scale):
        B, C = rand_basis(rnd, 6), rand_basis(rnd, 6)
        pb, pc = [Perm(p) for p in B], [Perm(p) for p in C]
        f1, f2 = FUNS[i % 6], FUNS[(i + 1 + i // 6) % 6]
        t1, t2 = itertools.tee(iter(pb))
        g1, g2 = (p for p in pb), (p for p in pc)
        ask(tail, B, f1, lambda: REAL[f1](t1), "first of two tee'd iterators")
        ask(tail, C, f2, lambda: REAL[f2](g2), "second of two live generators")
        ask(tail, B, f2, lambda: REAL[f2](t2), "second of two tee'd iterators")
        ask(tail, B, f1, lambda: REAL[f1](g1), "first of two live generators")
        if len(pc) >= 2:
            it = iter(pc)
            next(it)
            ask(tail, C[1:], f1, lambda: REAL[f1](it), "half-consumed iterator")
    # -- questions abandoned half way (KeyboardInterrupt inside the library, also while a permutation's entry of a memo table
    #    is being worked out), then every question asked on the same and on overlapping bases
    nint = 0
    for i in range(80 * scale):
        # elements the tables have not seen: a monotone or layered element of a length of its own next to random ones
        k = 6 + i % 7
        special = (tuple(range(k)), tuple(range(k - 1, -1, -1)), layered_like(rnd, k), structured(rnd, k))[i % 4]
        B = [tuple(special)] + [util.rand_perm(rnd, rnd.randint(3, 7)) for _ in range(rnd.randint(0, 2))]
        if i % 2:
            # an increasing and a decreasing element of lengths no earlier question used: together they decide most verdicts
            m = 8 + (i // 2) % 7
            B = [tuple(range(m)), tuple(range(m, -1, -1))] + B[1:2]
        if memo.ok:                       # the tables forget the elements of this question: the abandoned call meets them afresh
            for t in memo.tables():
                for p in B:
                    t.pop(Perm(p), None)
        rnd.shuffle(B)
        perms = [Perm(p) for p in B]
        f0 = FUNS[1 + i % 5]
        st, _ = util.interrupted_call(lambda: REAL[f0](list(perms)), rnd.randint(1, 90), suffixes=("permuta/permutils/",))
        nint += st == "interrupted"
        for f in FUNS[1:]:
            ask(tail, B, f, lambda: REAL[f](list(perms)), "after an abandoned %s" % NAME[f0])
        if len(B) > 1:
            ask(tail, B[:1], f0, lambda: REAL[f0](list(perms[:1])), "after an abandoned %s on a superset" % NAME[f0])
    ctx.note("questions_abandoned_half_way", nint)
    # -- permutations of length 11-12 that differ although their entries, written one after the other, read the same
    #    (10 | 1 0): one of the pair is asked about first, then the other, alone and next to fillers that leave it decisive
    for i in range(8 * scale):
        a, b = util.digit_twins(rnd, rnd.choice([11, 11, 12]), structured=i % 4 != 3)
        if i % 2:
            a, b = b, a
        todo = [[a], [b], [b, a]]
        # next to every filler basis (each lacks one type / one property, which the long element may supply)
        for t, fdec, F in decisive:
            todo += [list(F) + [a], list(F) + [b]]
        for B in todo:
            perms = [Perm(p) for p in B]
            for f in ("poly", rnd.choice(FUNS[2:])) if len(B) > 2 else FUNS[1:]:
                ask(tail, B, f, lambda: REAL[f](list(perms)), "digit twins %d" % i)
    # -- the cold processes and the command lines started earlier
    for B, via, proc in cold:
        try:
            out, err = proc.communicate(timeout=600)
        except subprocess.TimeoutExpired as ex:
            proc.kill()
            raise tlc.MachineryFailure("C13: cold process timed out") from ex
        case = {"kind": "event", "basis": [list(p) for p in B], "container": "cold process, " + via}
        if proc.returncode != 0:
            ctx.violation(case, "NoException", "verdicts", (err.strip().splitlines() or ["failed"])[-1])
            continue
        for k, (f, st, got) in enumerate(json.loads(out)):
            if st == "raise":
                ctx.violation(dict(case, f=NAME[f]), "NoException", "a verdict", got)
            else:
                tail.append({"op": "Q", "basis": [list(p) for p in B], "f": f, "res": got, "via": "cold process, %s, call %d" % (via, k + 1)})
    for B, cmd, name, proc in cmds:
        try:
            out, err = proc.communicate(timeout=600)
        except subprocess.TimeoutExpired as ex:
            proc.kill()
            raise tlc.MachineryFailure("C13: command line timed out") from ex
        got = (parse_poly(out) if cmd == "poly" else parse_insenc(out)) if proc.returncode == 0 else None
        if got is None or (cmd == "poly" and not isinstance(got, bool)):
            ctx.violation({"kind": "event", "basis": [list(p) for p in B], "f": "permtools " + cmd, "container": name}, "NoException",
                          "the command prints its verdict", (err.strip().splitlines() or [out])[-1])
            continue
        for f, res in ({"poly": got} if cmd == "poly" else got).items():
            tail.append({"op": "Q", "basis": [list(p) for p in B], "f": f, "res": res, "via": "permtools %s, %s" % (cmd, name)})
    return head, tail


def record_trace(ctx, memo, rnd, nv, nsym, ncount):
    events = []
    # a long structured permutation first, then its symmetric images in the same process (per-permutation memo
    # entries of related permutations must not influence each other)
    fillers = [[(0, 1, 2), (1, 0, 2)], [(2, 1, 0), (1, 2, 0)], [(0, 2, 1)], []]
    for i in range(max(6, nsym)):
        q = layered_like(rnd, rnd.choice([6, 6, 7]))
        B = [Perm(x) for x in fillers[i % len(fillers)]] + [Perm(q)]
        g = ("inv", "inv", "rev", "comp", "r1", "anti")[i % 6]
        img = [REAL_SYM[g](p) for p in B]
        v = verdicts_of(lambda: list(B))
        vi = verdicts_of(lambda: list(img))
        if any(x is None for x in list(v.values()) + list(vi.values())):
            ctx.violation({"kind": "event", "basis": [list(p) for p in B], "g": g}, "NoException", "verdicts", [v, vi])
            continue
        events.append({"op": "Sym", "g": g, "basis": [list(p) for p in B], "image": [list(p) for p in img], "v": v, "vimg": vi})
    forms = ("list", "tuple", "set", "frozenset", "generator", "iterator", "map", "Basis")
    for i in range(nv):
        B = rand_basis(rnd, 7)
        form = forms[i % len(forms)]
        perms = [Perm(p) for p in B]
        ev = v_event(ctx, memo, B, ncount, mk=lambda: build(form, perms))
        if ev is not None:
            ev["form"] = form
            events.append(ev)
    for i in range(nsym):
        B = rand_basis(rnd, 6)
        g = SYMS[1 + i % 7]
        perms = [Perm(p) for p in B]
        img = [REAL_SYM[g](p) for p in perms]
        v = verdicts_of(lambda: list(perms))
        vi = verdicts_of(lambda: iter(img))
        if any(x is None for x in list(v.values()) + list(vi.values())):
            ctx.violation({"kind": "event", "basis": [list(p) for p in B], "g": g}, "NoException", "verdicts", [v, vi])
            continue
        events.append({"op": "Sym", "g": g, "basis": [list(p) for p in B], "image": [list(p) for p in img], "v": v, "vimg": vi})
    return events


def replay(ctx, path):
    rec = json.load(open(path))
    case = rec["case"]
    memo = Memo(ctx)
    memo.clear()
    kind = case.get("kind")
    if kind == "edge":
        for h in case["history"]:
            fkey = [k for k, n in NAME.items() if n == h["f"]][0]
            util.call(REAL[fkey], [Perm(p) for p in h["basis"]])
        seq = [tuple(p) for p in case["basis"]]
    elif kind == "set":
        seq = [tuple(p) for p in case["basis"]]
    elif kind == "event" and "event" in case and case["event"].get("op") in ("V", "Q") and case["event"]["basis"] and all(case["event"]["basis"]):
        # (a single question is replayed through the six functions on the list form of its basis)
        seq = [tuple(p) for p in case["event"]["basis"]]
    else:
        raise tlc.MachineryFailure("this C13 case is replayed by re-running the check with the same VERIF_SEED")
    perms = [Perm(p) for p in seq]
    cont = case.get("container", "list")
    fname = case.get("f", "")
    fkey = [k for k, n in NAME.items() if fname.endswith(n)]
    ev = v_event(ctx, memo, seq, 7)
    if ev is None:
        print("VIOLATION property=C13 replay=%s" % path)
        print("  still failing: an entry point raises on %s" % seq)
        return 1
    # the verdict of the recorded entry point in the recorded container form replaces the list form's
    if fkey:
        f = fkey[0]
        if cont == "Av" and f in AVM:
            st, got = util.call(lambda: AVM[f](Av(Basis(*perms))))
        elif cont.startswith("cli"):
            st, got = util.call(lambda: cli_poly(seq) if f in ("poly", "npoly") else cli_insenc(seq)[f])
            if f == "npoly" and st == "ok":
                got = not got
        else:
            st, got = util.call(lambda: REAL[f](build(cont if cont in CONTAINERS else "list", perms)))
        if st == "raise":
            print("VIOLATION property=C13 replay=%s" % path)
            print("  still failing: %s(%s) raises %s" % (fname, cont, got))
            return 1
        ev["v"][f] = bool(got)
    v = util.validate_trace(ctx, "Trace_C13", [ev])
    if v["verdict"]:
        print("VIOLATION property=C13 replay=%s" % path)
        print("  still failing: %s on %s" % (v["verdict"], {k: ev[k] for k in ("basis", "v", "counts")}))
        return 1
    print("replay: case passes on the current tree")
    return 0
