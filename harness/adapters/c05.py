"""C05 - a basis is a canonical, minimal, order-independent description of its class.

model     : C05_Basis runs Permuta's construction (sort, then greedy pruning) step by step with the
            sort key as a parameter; TLC proves on the universe that the repaired key is a linear
            extension of containment and hence the result is the set of minimal elements, and must
            refute this for the key Permuta used before the fix.
spec->code: for every input set, the expected basis; the real constructors are called with every
            order, with repetitions, through every public entry point and element representation.
code->spec: larger random inputs and a long session of class objects, validated by Trace_C05.
"""
import itertools
import json

from permuta import Av, Basis, BivincularPatt, CovincularPatt, MeshBasis, MeshPatt, Perm, VincularPatt

from harness import tlc, util

INVS = ["KeyIsLinearExtension", "ResultIsMinimal", "Antichain", "KeptSorted", "SameClass", "FixedPoint"]
CLASSLEN = 4


def tla_mesh(p, R):
    return "[p |-> %s, R |-> {%s}]" % (tlc.tla(list(p)), ", ".join(tlc.tla(list(c)) for c in R))


def tla_inputs(sets):
    return "{" + ", ".join("{" + ", ".join(tla_mesh(p, R) for p, R in s) + "}" for s in sets) + "}"


def key(e):
    return (tuple(e["p"]), tuple(sorted(map(tuple, e["R"]))))


def okey(o):
    if isinstance(o, Perm):
        return (tuple(o), ())
    return (tuple(o.pattern), tuple(sorted(o.shading)))


def represent(p, R, variant):
    """The same pattern written with different Permuta classes."""
    P = Perm(p)
    k = len(p)
    Rs = set(R)
    if not Rs:
        return P if variant % 2 == 0 else MeshPatt(P, [])
    cols = [x for x in range(k + 1) if all((x, y) in Rs for y in range(k + 1))]
    rows = [y for y in range(k + 1) if all((x, y) in Rs for x in range(k + 1))]
    if variant % 2 == 1:
        if Rs == {(x, y) for x in cols for y in range(k + 1)}:
            return VincularPatt(P, cols)
        if Rs == {(x, y) for y in rows for x in range(k + 1)}:
            return CovincularPatt(P, rows)
        if Rs == {(x, y) for x in cols for y in range(k + 1)} | {(x, y) for y in rows for x in range(k + 1)}:
            return BivincularPatt(P, cols, rows)
    return MeshPatt(P, R)


def universe(rnd, quick):
    s = {n: util.perms_of(n) for n in range(0, 5)}
    small = s[0] + s[1] + s[2] + s[3]
    classical = []
    for r in (1, 2, 3):
        for combo in itertools.combinations(small, r):
            classical.append([(p, ()) for p in combo])
    if quick:
        rnd.shuffle(classical)
        classical = classical[:90]
    for _ in range(12 if quick else 60):
        classical.append([(rnd.choice(s[4]), ()), (rnd.choice(s[3] + s[4]), ()), (rnd.choice(s[2] + s[3]), ())])
    cells1 = [(0, 0), (0, 1), (1, 0), (1, 1)]
    m1 = [((), ()), ((), ((0, 0),))] + [((0,), tuple(c)) for r in range(5) for c in itertools.combinations(cells1, r)]
    mesh = [[a] for a in m1] + [list(c) for c in itertools.combinations(m1, 2)]
    if quick:
        rnd.shuffle(mesh)
        mesh = mesh[:70]
    trap = [[((0, 1), ((1, 1),)), ((0, 1), ((0, 0), (1, 1)))],
            [((0, 1), ((1, 0), (1, 1), (1, 2))), ((1, 0), ((0, 1), (1, 1), (2, 1)))],          # vincular + covincular
            [((0, 1), ()), ((0, 1), ((0, 0),)), ((1, 0), ((2, 2),))]]
    def r2():
        p = rnd.choice(s[2])
        return (p, tuple((x, y) for x in range(3) for y in range(3) if rnd.random() < rnd.choice([0.15, 0.4, 0.7])))
    mixed = []
    for _ in range(30 if quick else 300):
        k = rnd.randint(2, 3)
        mixed.append([rnd.choice([r2(), r2(), rnd.choice(m1), (rnd.choice(s[2] + s[3]), ())]) for _ in range(k)])
    # full columns / rows of length 2 (bivincular family), so that mixtures of subclasses occur
    biv = []
    for _ in range(10 if quick else 60):
        p = rnd.choice(s[2])
        cols = [x for x in range(3) if rnd.random() < 0.4]
        rows = [y for y in range(3) if rnd.random() < 0.3]
        R = tuple(sorted({(x, y) for x in cols for y in range(3)} | {(x, y) for y in rows for x in range(3)}))
        biv.append((p, R))
    for _ in range(12 if quick else 80):
        mixed.append([rnd.choice(biv), rnd.choice(biv), rnd.choice([r2(), (rnd.choice(s[2]), ())])])
    dedup = []
    seen = set()
    for inp in classical + mesh + trap + mixed:
        fs = frozenset(inp)
        if fs and fs not in seen:
            seen.add(fs)
            dedup.append(sorted(fs))
    return dedup


def run(ctx):
    quick = ctx.tier == "quick"
    rnd = util.rng(ctx, 5)
    uni = universe(rnd, quick)
    # ---- model: the repaired key proves out, the old key must be refuted ---------------------
    jobs = []
    per = max(8, len(uni) // 14)
    chunks = [uni[i:i + per] for i in range(0, len(uni), per)]
    for ch in chunks:
        mod = util.mc_module("MC_C05", "C05_Basis", {"InputsDef": tla_inputs(ch)})
        k = {"Inputs": ("<-", "InputsDef"), "KeyMode": '"cardinality"', "ClassLen": CLASSLEN}
        jobs.append(("MC_C05", util.cfg(init="Init", next_="Next", invariants=INVS + ["EmitDone"], constants=k),
                     {"files": {"MC_C05.tla": mod}, "timeout": 3000}))
    mod = util.mc_module("MC_C05", "C05_Basis", {"InputsDef": tla_inputs(uni)})
    k = {"Inputs": ("<-", "InputsDef"), "KeyMode": '"lexshading"', "ClassLen": 0}
    jobs.append(("MC_C05", util.cfg(init="Init", next_="Next", invariants=["ResultIsMinimal"], constants=k),
                 {"files": {"MC_C05.tla": mod}, "timeout": 3000, "allow_violation": True}))
    results = tlc.run_many(jobs, parallel=16)
    old = results.pop()
    ctx.add_tlc(old, "old sort key (must be refuted)")
    if old.violated != "ResultIsMinimal":
        raise tlc.MachineryFailure("C05 model vacuous: the pre-fix sort key was not refuted on this universe")
    ctx.note("old_sort_key_refuted_by_model", True)
    nrec = 0
    avs = {}
    for r in results:
        ctx.add_tlc(r, "construction machine")
        for rec in r.records:
            nrec += 1
            judge(ctx, rnd, rec, avs)
            if nrec % 67 == 0:
                ctx.sample({"machine": "C05_Basis", "record": rec})
    if nrec != len(uni):
        raise tlc.MachineryFailure("C05: %d results for %d inputs" % (nrec, len(uni)))
    ctx.exhaustive = True

    # ---- code -> spec: larger inputs, long session ---------------------------------------------
    events = []
    s = {n: util.perms_of(n) for n in range(1, 6)}
    for _ in range(80 if quick else 800):
        if rnd.random() < 0.5:
            el = [(rnd.choice(s[rnd.choice([2, 3, 3, 4, 4, 5])]), ()) for _ in range(rnd.randint(1, 5))]
            objs = [Perm(p) for p, _ in el]
            res = Basis(*objs) if rnd.random() < 0.5 else Av.from_iterable(iter(objs)).basis
        else:
            el = []
            for _ in range(rnd.randint(1, 4)):
                k = rnd.choice([1, 2, 2, 3])
                p = rnd.choice(s[k])
                el.append((p, tuple((x, y) for x in range(k + 1) for y in range(k + 1) if rnd.random() < rnd.choice([0.0, 0.2, 0.5]))))
            objs = [represent(p, R, rnd.randint(0, 3)) for p, R in el]
            res = MeshBasis(*objs)
        events.append({"op": "Build", "elems": [{"p": list(p), "R": [list(c) for c in R]} for p, R in el],
                       "res": [{"p": list(okey(o)[0]), "R": [list(c) for c in okey(o)[1]]} for o in res]})
    # long session: many distinct classes, then the early ones are requested again
    Av.clear_cache()
    pool = []
    seen = set()
    while len(pool) < (1300 if quick else 3000):
        a, b = rnd.choice(s[5]), rnd.choice(s[5] + s[4])
        ks = frozenset([a, b])
        if ks not in seen:
            seen.add(ks)
            pool.append([a, b])
    first = [Av([Perm(a), Perm(b)]) for a, b in pool]
    for i in list(range(0, 40)) + [rnd.randrange(len(pool)) for _ in range(40)]:
        a, b = pool[i]
        again = Av(Basis(Perm(b), Perm(a)))
        ja = [{"p": list(a), "R": []}, {"p": list(b), "R": []}]
        events.append({"op": "Ident", "a": ja, "b": list(reversed(ja)), "same": again is first[i]})
        j = (i + 7) % len(pool)
        events.append({"op": "Ident", "a": ja, "b": [{"p": list(x), "R": []} for x in pool[j]], "same": first[j] is first[i]})
    Av.clear_cache()
    v = util.validate_trace(ctx, "Trace_C05", events, ntraces=len(events))
    ctx.case(n=len(events))
    ctx.sample({"machine": "Trace_C05", "events": events[:2]})
    for b in v["verdict"]:
        ev = events[b["i"] - 1]
        ctx.violation({"kind": "trace-event", "event": ev}, b["clause"], "Minimal(elems) / identity iff equal minimal sets", ev.get("res", ev.get("same")))
    ctx.rule = ("input sets of classical / mesh / bivincular-type patterns; TLC runs the sort-and-prune construction and "
                "proves result = minimal elements, same class; the real constructors are called for every order (<= 6), "
                "with a repetition, through every entry point and element representation; non-trivial = input with at "
                "least one non-minimal element; plus larger random inputs and a session of >1000 class objects (Trace_C05)")


def judge(ctx, rnd, rec, avs):
    inp = [key(e) for e in rec["inp"]]
    want_seq = [key(e) for e in rec["basis"]]
    want = set(want_seq)
    classical = all(not R for _, R in inp)
    has_eps = any(len(p) == 0 for p, _ in inp)
    base = {"kind": "input", "inp": [{"p": list(p), "R": [list(c) for c in R]} for p, R in inp]}
    ctx.case(tuple(sorted(inp)), nontrivial=len(want) < len(inp))
    orders = list(itertools.permutations(inp))
    if len(orders) > 6:
        orders = orders[:3] + orders[-3:]
    orders.append(tuple(inp) + (inp[0],))                      # a repetition
    results = []
    for oi, order in enumerate(orders):
        ctors = []
        if classical:
            objs = [Perm(p) for p, _ in order]
            ctors.append(("Basis", lambda o=objs: Basis(*o)))
            ctors.append(("Basis.from_iterable", lambda o=objs: Basis.from_iterable(iter(o))))
            if not has_eps and all(len(p) <= 9 for p, _ in order):
                ctors.append(("Basis.from_string/0", lambda o=order: Basis.from_string("_".join("".join(str(v) for v in p) for p, _ in o))))
                ctors.append(("Basis.from_string/1", lambda o=order: Basis.from_string(", ".join("".join(str(v + 1) for v in p) for p, _ in o))))
            if not (want == {((), ())}):
                ctors.append(("Av", lambda o=objs: Av(list(o)).basis))
                ctors.append(("Av.from_iterable", lambda o=objs: Av.from_iterable(tuple(o)).basis))
                ctors.append(("Av.from_iterable(iterator)", lambda o=objs: Av.from_iterable(iter(o)).basis))
                ctors.append(("Av(iterator)", lambda o=objs: Av(iter(o)).basis))
                if not has_eps:
                    ctors.append(("Av.from_string", lambda o=order: Av.from_string("|".join("".join(str(v) for v in p) for p, _ in o)).basis))
        objs_m = [represent(p, R, oi + i) for i, (p, R) in enumerate(order)]
        if not classical or oi % 2 == 0:
            forced = objs_m if any(isinstance(o, MeshPatt) for o in objs_m) else [MeshPatt(objs_m[0], [])] + objs_m[1:]
            ctors.append(("MeshBasis", lambda o=forced: MeshBasis(*o)))
            ctors.append(("MeshBasis.from_iterable", lambda o=forced: MeshBasis.from_iterable(iter(o))))
            ctors.append(("Av(mesh list)", lambda o=forced: Av(list(o)).basis))
            ctors.append(("Av.from_iterable(mesh iterator)", lambda o=forced: Av.from_iterable(iter(o)).basis))
        for name, mk in ctors:
            st, got = util.call(mk)
            case = dict(base, ctor=name, order=[{"p": list(p), "R": [list(c) for c in R]} for p, R in order])
            if st == "raise":
                ctx.violation(case, "ConstructionSucceeds", sorted(want), {"raised": got})
                continue
            gk = [okey(o) for o in got]
            if set(gk) != want or len(gk) != len(want):
                ctx.violation(case, "ResultIsMinimal", sorted(want), gk)
                continue
            if gk != want_seq:
                ctx.drift("%s keeps the minimal elements in another order than the model's sort: %s" % (name, gk))
            results.append((name, got))
    # all results of one kind are equal objects with equal hashes, and fixed points
    for kind in (Basis, MeshBasis):
        same = [g for _, g in results if type(g) is kind]
        for g in same[1:]:
            if not (g == same[0] and hash(g) == hash(same[0])):
                ctx.violation(base, "OrderIndependent", [okey(o) for o in same[0]], [okey(o) for o in g])
                break
        if same:
            again = kind(*same[0])
            if not again == same[0]:
                ctx.violation(base, "FixedPoint", [okey(o) for o in same[0]], [okey(o) for o in again])
            for a, b in itertools.permutations(same[0], 2):
                if a.contains(b) if isinstance(a, MeshPatt) else a.contains(b):
                    ctx.violation(base, "Antichain", "no element contains another", [okey(a), okey(b)])
            # equal bases denote the same class object; the class is the class of the input
            valid = len(same[0]) > 0 and not (kind is Basis and same[0] == Basis(Perm()))
            if valid and not (kind is MeshBasis and has_eps):
                a1, a2 = Av(same[0]), Av(kind(*reversed(same[0])))
                if a1 is not a2:
                    ctx.violation(base, "EqualBasesSameObject", "one object", "two objects")
                k2 = (kind.__name__, frozenset(okey(o) for o in same[0]))
                if k2 in avs and avs[k2] is not a1:
                    ctx.violation(base, "EqualBasesSameObject", "the object created earlier in this process", "a new object")
                avs[k2] = a1
                got = [a1.count(n) for n in range(CLASSLEN + 1)]
                if got != rec["counts"]:
                    ctx.violation(base, "SameClass", rec["counts"], got)


def replay(ctx, path):
    rec = json.load(open(path))
    case = rec["case"]
    if case["kind"] != "input":
        raise tlc.MachineryFailure("trace events are replayed by re-running the check with the same VERIF_SEED")
    inp = [(tuple(e["p"]), tuple(map(tuple, e["R"]))) for e in case["inp"]]
    mod = util.mc_module("MC_C05", "C05_Basis", {"InputsDef": tla_inputs([inp])})
    k = {"Inputs": ("<-", "InputsDef"), "KeyMode": '"cardinality"', "ClassLen": CLASSLEN}
    r = tlc.run_tlc("MC_C05", util.cfg(init="Init", next_="Next", invariants=INVS + ["EmitDone"], constants=k), files={"MC_C05.tla": mod}, timeout=600)
    before = len(ctx.violations)
    for s in r.records:
        judge(ctx, util.rng(ctx, 5), s, {})
    if len(ctx.violations) > before:
        return 1
    print("replay: case passes on the current tree")
    return 0
