"""C05 - a basis is a canonical, minimal, order-independent description of its class.

model     : C05_Basis runs Permuta's construction (sort, then greedy pruning) step by step with the
            sort key as a parameter; TLC proves on the universe that the repaired key is a linear
            extension of containment and hence the result is the set of minimal elements, and must
            refute this for the key Permuta used before the fix.
spec->code: for every input set, the expected basis; the real constructors are called with every
            order, with repetitions, through every public entry point and element representation.
code->spec: larger random inputs and a long session of class objects, validated by Trace_C05.
"""
import itertools
import json
import subprocess
import sys

from permuta import Av, Basis, BivincularPatt, CovincularPatt, MeshBasis, MeshPatt, Perm, VincularPatt

from harness import tlc, util

INVS = ["KeyIsLinearExtension", "ResultIsMinimal", "Antichain", "KeptSorted", "SameClass", "FixedPoint"]
CLASSLEN = 4


def tla_mesh(p, R):
    return "[p |-> %s, R |-> {%s}]" % (tlc.tla(list(p)), ", ".join(tlc.tla(list(c)) for c in R))


def tla_inputs(sets):
    return "{" + ", ".join("{" + ", ".join(tla_mesh(p, R) for p, R in s) + "}" for s in sets) + "}"


def key(e):
    return (tuple(e["p"]), tuple(sorted(map(tuple, e["R"]))))


def okey(o):
    if isinstance(o, Perm):
        return (tuple(o), ())
    return (tuple(o.pattern), tuple(sorted(o.shading)))


def represent(p, R, variant):
    """The same pattern written with different Permuta classes."""
    P = Perm(p)
    k = len(p)
    Rs = set(R)
    if not Rs:
        return P if variant % 2 == 0 else MeshPatt(P, [])
    cols = [x for x in range(k + 1) if all((x, y) in Rs for y in range(k + 1))]
    rows = [y for y in range(k + 1) if all((x, y) in Rs for x in range(k + 1))]
    if variant % 2 == 1:
        if Rs == {(x, y) for x in cols for y in range(k + 1)}:
            return VincularPatt(P, cols)
        if Rs == {(x, y) for y in rows for x in range(k + 1)}:
            return CovincularPatt(P, rows)
        if Rs == {(x, y) for x in cols for y in range(k + 1)} | {(x, y) for y in rows for x in range(k + 1)}:
            return BivincularPatt(P, cols, rows)
    # the same mesh pattern object-wise built in different ways (the shading handed over as a list, as frozensets made in
    # different orders, added cell by cell with shade() to a parent that was or was not used before)
    how = (variant // 2) % 6
    Rl = sorted(Rs)
    if how == 1:
        return MeshPatt(P, frozenset(Rl))
    if how == 2:
        return MeshPatt(P, frozenset(reversed(Rl)))
    if how == 3:
        return MeshPatt(P, Rl[: len(Rl) // 2]).shade(*Rl[len(Rl) // 2:])
    if how == 4:
        parent = MeshPatt(P, Rl[1:])
        sorted([parent, MeshPatt(P, [])]), hash(parent), parent.contains(MeshPatt(Perm((0,)), []))
        return parent.shade(Rl[0])
    if how == 5:
        return MeshPatt(P, frozenset(Rl[::2]) | frozenset(Rl[1::2]))
    return MeshPatt(P, R)


def universe(rnd, quick):
    s = {n: util.perms_of(n) for n in range(0, 5)}
    small = s[0] + s[1] + s[2] + s[3]
    classical = []
    for r in (1, 2, 3):
        for combo in itertools.combinations(small, r):
            classical.append([(p, ()) for p in combo])
    if quick:
        rnd.shuffle(classical)
        classical = classical[:90]
    for _ in range(12 if quick else 60):
        classical.append([(rnd.choice(s[4]), ()), (rnd.choice(s[3] + s[4]), ()), (rnd.choice(s[2] + s[3]), ())])
    cells1 = [(0, 0), (0, 1), (1, 0), (1, 1)]
    m1 = [((), ()), ((), ((0, 0),))] + [((0,), tuple(c)) for r in range(5) for c in itertools.combinations(cells1, r)]
    mesh = [[a] for a in m1] + [list(c) for c in itertools.combinations(m1, 2)]
    if quick:
        rnd.shuffle(mesh)
        mesh = mesh[:70]
    trap = [[((0, 1), ((1, 1),)), ((0, 1), ((0, 0), (1, 1)))],
            [((0, 1), ((1, 0), (1, 1), (1, 2))), ((1, 0), ((0, 1), (1, 1), (2, 1)))],          # vincular + covincular
            [((0, 1), ()), ((0, 1), ((0, 0),)), ((1, 0), ((2, 2),))]]
    # structurally special inputs: fully shaded grids, bivincular-type elements of length 3 next to what they contain
    def fullR(k, cols, rows):
        return tuple(sorted({(x, y) for x in cols for y in range(k + 1)} | {(x, y) for y in rows for x in range(k + 1)}))
    trap += [[((0, 1, 2), fullR(3, [1], [])), ((0, 1), ())],
             [((0, 2, 1), fullR(3, [1, 2], [])), ((1, 0), fullR(2, [], [1])), ((0, 2, 1), ())],
             [((1, 0), fullR(2, [0, 1, 2], [])), ((1, 0), ()), ((0,), fullR(1, [0, 1], []))],
             [((), ((0, 0),)), ((0,), fullR(1, [0, 1], [])), ((0,), ())],
             [((2, 0, 1), fullR(3, [], [0, 3])), ((2, 0, 1), fullR(3, [0], [0, 3])), ((1, 0), fullR(2, [], [0]))],
             [((0, 1, 2), fullR(3, [0, 3], [0, 3])), ((0, 1), fullR(2, [0, 2], [0, 2])), ((0,), fullR(1, [0], [0]))]]
    def r2():
        p = rnd.choice(s[2])
        return (p, tuple((x, y) for x in range(3) for y in range(3) if rnd.random() < rnd.choice([0.15, 0.4, 0.7])))
    mixed = []
    for _ in range(30 if quick else 300):
        k = rnd.randint(2, 3)
        mixed.append([rnd.choice([r2(), r2(), rnd.choice(m1), (rnd.choice(s[2] + s[3]), ())]) for _ in range(k)])
    # full columns / rows of length 2 (bivincular family), so that mixtures of subclasses occur
    biv = []
    for _ in range(10 if quick else 60):
        p = rnd.choice(s[2])
        cols = [x for x in range(3) if rnd.random() < 0.4]
        rows = [y for y in range(3) if rnd.random() < 0.3]
        R = tuple(sorted({(x, y) for x in cols for y in range(3)} | {(x, y) for y in rows for x in range(3)}))
        biv.append((p, R))
    for _ in range(12 if quick else 80):
        mixed.append([rnd.choice(biv), rnd.choice(biv), rnd.choice([r2(), (rnd.choice(s[2]), ())])])
    dedup = []
    seen = set()
    for inp in classical + mesh + trap + mixed:
        fs = frozenset(inp)
        if fs and fs not in seen:
            seen.add(fs)
            dedup.append(sorted(fs))
    return dedup


def run(ctx):
    quick = ctx.tier == "quick"
    rnd = util.rng(ctx, 5)
    uni = universe(rnd, quick)
    # ---- model: the repaired key proves out, the old key must be refuted ---------------------
    jobs = []
    per = max(8, len(uni) // 14)
    chunks = [uni[i:i + per] for i in range(0, len(uni), per)]
    for ch in chunks:
        mod = util.mc_module("MC_C05", "C05_Basis", {"InputsDef": tla_inputs(ch)})
        k = {"Inputs": ("<-", "InputsDef"), "KeyMode": '"cardinality"', "ClassLen": CLASSLEN}
        jobs.append(("MC_C05", util.cfg(init="Init", next_="Next", invariants=INVS + ["EmitDone"], constants=k),
                     {"files": {"MC_C05.tla": mod}, "timeout": 3000}))
    mod = util.mc_module("MC_C05", "C05_Basis", {"InputsDef": tla_inputs(uni)})
    k = {"Inputs": ("<-", "InputsDef"), "KeyMode": '"lexshading"', "ClassLen": 0}
    jobs.append(("MC_C05", util.cfg(init="Init", next_="Next", invariants=["ResultIsMinimal"], constants=k),
                 {"files": {"MC_C05.tla": mod}, "timeout": 3000, "allow_violation": True}))
    results = tlc.run_many(jobs, parallel=16)
    old = results.pop()
    ctx.add_tlc(old, "old sort key (must be refuted)")
    if old.violated != "ResultIsMinimal":
        raise tlc.MachineryFailure("C05 model vacuous: the pre-fix sort key was not refuted on this universe")
    ctx.note("old_sort_key_refuted_by_model", True)
    nrec = 0
    avs = {}
    for r in results:
        ctx.add_tlc(r, "construction machine")
        for rec in r.records:
            nrec += 1
            judge(ctx, rnd, rec, avs)
            if nrec % 67 == 0:
                ctx.sample({"machine": "C05_Basis", "record": rec})
    if nrec != len(uni):
        raise tlc.MachineryFailure("C05: %d results for %d inputs" % (nrec, len(uni)))
    ctx.exhaustive = True

    # ---- code -> spec: larger inputs, long session ---------------------------------------------
    events = []
    s = {n: util.perms_of(n) for n in range(1, 6)}
    for _ in range(80 if quick else 800):
        if rnd.random() < 0.5:
            el = [(rnd.choice(s[rnd.choice([2, 3, 3, 4, 4, 5])]), ()) for _ in range(rnd.randint(1, 5))]
            objs = [Perm(p) for p, _ in el]
            res = Basis(*objs) if rnd.random() < 0.5 else Av.from_iterable(iter(objs)).basis
        else:
            el = []
            for _ in range(rnd.randint(1, 4)):
                k = rnd.choice([1, 2, 2, 3])
                p = rnd.choice(s[k])
                el.append((p, tuple((x, y) for x in range(k + 1) for y in range(k + 1) if rnd.random() < rnd.choice([0.0, 0.2, 0.5]))))
            objs = [represent(p, R, rnd.randint(0, 23)) for p, R in el]
            res = MeshBasis(*objs)
        events.append({"op": "Build", "elems": [{"p": list(p), "R": [list(c) for c in R]} for p, R in el],
                       "res": [{"p": list(okey(o)[0]), "R": [list(c) for c in okey(o)[1]]} for o in res]})
    nbase = len(events)
    forms_session(ctx, rnd, quick, events)
    routes_session(ctx, rnd, quick, events)
    construction_events(ctx, rnd, quick, events)
    cold_start(ctx, rnd, quick, events)
    ctx.note("events_forms_and_routes", len(events) - nbase)
    # long session: many distinct classes, then the early ones are requested again
    Av.clear_cache()
    pool = []
    seen = set()
    while len(pool) < (1300 if quick else 3000):
        a, b = rnd.choice(s[5]), rnd.choice(s[5] + s[4])
        ks = frozenset([a, b])
        if ks not in seen:
            seen.add(ks)
            pool.append([a, b])
    first = [Av([Perm(a), Perm(b)]) for a, b in pool]
    for i in list(range(0, 40)) + [rnd.randrange(len(pool)) for _ in range(40)]:
        a, b = pool[i]
        again = Av(Basis(Perm(b), Perm(a)))
        ja = [{"p": list(a), "R": []}, {"p": list(b), "R": []}]
        events.append({"op": "Ident", "a": ja, "b": list(reversed(ja)), "same": again is first[i]})
        j = (i + 7) % len(pool)
        events.append({"op": "Ident", "a": ja, "b": [{"p": list(x), "R": []} for x in pool[j]], "same": first[j] is first[i]})
    # a very long session: tens of thousands of further classes (one-element bases of length 10: all distinct from the pool),
    # the objects handed out first still held; then the same bases are asked for again
    more = set()
    while len(more) < (70000 if quick else 300000):
        more.add(util.rand_perm(rnd, 10))
    for q in more:
        Av(Basis(Perm(q)))
    ctx.note("very_long_session_classes", len(pool) + len(more))
    for i in list(range(0, 12)) + [rnd.randrange(len(pool)) for _ in range(12)]:
        a, b = pool[i]
        again = Av.from_iterable([Perm(a), Perm(b)]) if i % 2 else Av(Basis(Perm(a), Perm(b)))
        ja = [{"p": list(a), "R": []}, {"p": list(b), "R": []}]
        events.append({"op": "Ident", "a": ja, "b": ja, "same": again is first[i]})
    del more
    # bases whose elements differ although their entries written one after the other read the same (10 | 1 0)
    for n in (11, 12, 11):
        a, b = util.digit_twins(rnd, n)
        A1, A2, A3 = Av(Basis(Perm(a))), Av(Basis(Perm(b))), Av.from_iterable(iter([Perm(a)]))
        ja, jb = [{"p": list(a), "R": []}], [{"p": list(b), "R": []}]
        events.append({"op": "Ident", "a": ja, "b": jb, "same": A1 is A2})
        events.append({"op": "Ident", "a": ja, "b": ja, "same": A1 is A3})
        events.append({"op": "Build", "elems": [{"p": list(a), "R": []}, {"p": list(b), "R": []}],
                       "res": [{"p": list(okey(o)[0]), "R": [list(c) for c in okey(o)[1]]} for o in Basis(Perm(b), Perm(a))]})
    Av.clear_cache()
    v = util.validate_trace(ctx, "Trace_C05", events, ntraces=len(events))
    ctx.case(n=len(events))
    ctx.sample({"machine": "Trace_C05", "events": events[:2]})
    for b in v["verdict"]:
        ev = events[b["i"] - 1]
        ctx.violation({"kind": "trace-event", "event": ev}, b["clause"], "Minimal(elems) / identity iff equal minimal sets / == iff equal minimal sets / class size by definition",
                      ev.get("res", ev.get("same", ev.get("eq", ev.get("count")))))
    ctx.rule = ("input sets of classical / mesh / bivincular-type patterns; TLC runs the sort-and-prune construction and "
                "proves result = minimal elements, same class; the real constructors are called for every order (<= 6), "
                "with a repetition, through every entry point and element representation; non-trivial = input with at "
                "least one non-minimal element; plus larger random inputs and a session of >1000 class objects (Trace_C05)")


def jel(p, R):
    return {"p": list(p), "R": [list(c) for c in R]}


def jres(res):
    return [{"p": list(okey(o)[0]), "R": [list(c) for c in okey(o)[1]]} for o in res]


SEPS = ["\n", "\t", " ; ", "x", " and ", "][", "--", ")(", " | ", ".", "/", ":"]


def special_classical(rnd, n):
    """Structurally special permutations: monotone, layered, a pattern with a point added at a boundary."""
    kind = rnd.randrange(5)
    if kind == 0:
        return tuple(range(n))
    if kind == 1:
        return tuple(reversed(range(n)))
    if kind == 2:                                   # layered
        out, lo = [], 0
        while lo < n:
            w = rnd.randint(1, min(3, n - lo))
            out.extend(reversed(range(lo, lo + w)))
            lo += w
        return tuple(out)
    return util.rand_perm(rnd, n)


def grow(rnd, p):
    """p with one more point at a boundary position or value (so p is contained in the result)."""
    n = len(p)
    where = rnd.randrange(4)
    if where == 0:
        return (n,) + tuple(p)
    if where == 1:
        return tuple(p) + (n,)
    if where == 2:
        return (0,) + tuple(v + 1 for v in p)
    return tuple(v + 1 for v in p) + (0,)


def forms_session(ctx, rnd, quick, events):
    """code -> spec: the same finite collection handed over in every container / iterator form, through every
    public entry point, with larger (length 4-7) and structurally special elements; each result is judged by
    TLC as Minimal(elems) (Build), pairs of results as == iff equal minimal sets (Canon), classes by size (Class)."""
    nforms = set()
    allres = []
    for rnd_i in range(36 if quick else 300):
        mesh = rnd_i % 3 == 2
        if not mesh:
            base_len = rnd.choice([3, 4, 4, 5, 6])
            el = []
            for _ in range(rnd.randint(1, 4)):
                p = special_classical(rnd, rnd.randint(max(1, base_len - 1), min(7, base_len + 1)))
                el.append(p)
                if rnd.random() < 0.5 and len(p) < 7:
                    el.append(grow(rnd, p))          # a non-minimal element at a boundary
            if rnd_i % 9 == 0:
                el = el[:1]                          # singleton
            if rnd_i % 18 == 3:                      # the longest patterns that digit strings can spell: 9 (1-based) and 10 (0-based)
                n = 9 + (rnd_i % 36 == 3)
                el = [special_classical(rnd, n), util.rand_perm(rnd, n), special_classical(rnd, n - 1)]
            rnd.shuffle(el)
            el = [(p, ()) for p in el]
            objs = [Perm(p) for p, _ in el]
            nums = all(1 <= len(p) <= 9 for p, _ in el)
            forms = [("Basis(*gen)", lambda: Basis(*(o for o in objs))),
                     ("Basis.from_iterable(generator)", lambda: Basis.from_iterable(o for o in objs)),
                     ("Basis.from_iterable(set)", lambda: Basis.from_iterable(set(objs))),
                     ("Basis.from_iterable(frozenset)", lambda: Basis.from_iterable(frozenset(objs))),
                     ("Basis.from_iterable(reversed tuple)", lambda: Basis.from_iterable(reversed(tuple(objs)))),
                     ("Basis.from_iterable(map)", lambda: Basis.from_iterable(map(Perm, [p for p, _ in el]))),
                     ("Basis.from_iterable(filter)", lambda: Basis.from_iterable(filter(lambda o: True, objs))),
                     ("Basis.from_iterable(Basis)", lambda: Basis.from_iterable(Basis(*objs))),
                     ("Basis(*Basis, *elems)", lambda: Basis(*Basis(*objs), *objs)),
                     ("Basis.from_iterable(dict keys)", lambda: Basis.from_iterable(dict.fromkeys(objs))),
                     ("Av(set)", lambda: Av(set(objs)).basis),
                     ("Av(generator)", lambda: Av(o for o in objs).basis),
                     ("Av(tuple)", lambda: Av(tuple(objs)).basis),
                     ("Av(Basis)", lambda: Av(Basis(*objs)).basis),
                     ("Av.from_iterable(frozenset)", lambda: Av.from_iterable(frozenset(objs)).basis),
                     ("Av.from_iterable(Basis)", lambda: Av.from_iterable(Basis(*reversed(objs))).basis),
                     ("MeshBasis.from_iterable(generator of Perm)", lambda: MeshBasis.from_iterable(o for o in objs)),
                     ("MeshBasis(*Basis)", lambda: MeshBasis(*Basis(*objs)))]
            if nums:
                sep = rnd.choice(SEPS)
                sep2 = rnd.choice(SEPS)
                t0 = sep.join("".join(str(v) for v in p) for p, _ in el)
                t1 = sep2.join("".join(str(v + 1) for v in p) for p, _ in el)
                forms += [("Basis.from_string/0 sep=%r" % sep, lambda: Basis.from_string(t0)),
                          ("Basis.from_string/1 sep=%r" % sep2, lambda: Basis.from_string(t1)),
                          ("Basis.from_string/0 wrapped", lambda: Basis.from_string("Av(" + t0 + ")\n")),
                          ("Av.from_string/1 sep=%r" % sep2, lambda: Av.from_string(t1).basis),
                          ("Av.from_string/0 leading sep", lambda: Av.from_string(sep + t0 + sep).basis)]
            if all(1 <= len(p) <= 10 for p, _ in el) and not nums:
                tz = " , ".join("".join(str(v) for v in p) for p, _ in el)
                forms.append(("Basis.from_string/0 ten digits", lambda: Basis.from_string(tz)))
        else:
            el = []
            for _ in range(rnd.randint(1, 3)):
                k = rnd.choice([2, 3, 3, 4])
                p = util.rand_perm(rnd, k)
                mode = rnd.randrange(5)
                if mode == 0:                        # bivincular type
                    cols = [x for x in range(k + 1) if rnd.random() < 0.35]
                    rows = [y for y in range(k + 1) if rnd.random() < 0.25]
                    R = tuple(sorted({(x, y) for x in cols for y in range(k + 1)} | {(x, y) for y in rows for x in range(k + 1)}))
                elif mode == 1:                      # fully shaded
                    R = tuple((x, y) for x in range(k + 1) for y in range(k + 1))
                else:
                    dens = rnd.choice([0.0, 0.15, 0.4])
                    R = tuple((x, y) for x in range(k + 1) for y in range(k + 1) if rnd.random() < dens)
                el.append((p, R))
                if rnd.random() < 0.5:               # the same underlying pattern with more / fewer cells, or its classical pattern
                    R2 = tuple(c for c in R if rnd.random() < 0.6)
                    el.append((p, R2))
                if rnd.random() < 0.3 and k < 4:
                    el.append((grow(rnd, p), ()))
            rnd.shuffle(el)
            objs = [represent(p, R, rnd.randint(0, 23)) for p, R in el]
            if not any(isinstance(o, MeshPatt) for o in objs):
                objs[0] = MeshPatt(objs[0], [])
            forms = [("MeshBasis(*gen)", lambda: MeshBasis(*(o for o in objs))),
                     ("MeshBasis.from_iterable(generator)", lambda: MeshBasis.from_iterable(o for o in objs)),
                     ("MeshBasis.from_iterable(set)", lambda: MeshBasis.from_iterable(set(objs))),
                     ("MeshBasis.from_iterable(reversed)", lambda: MeshBasis.from_iterable(reversed(objs))),
                     ("MeshBasis.from_iterable(MeshBasis)", lambda: MeshBasis.from_iterable(MeshBasis(*objs))),
                     ("MeshBasis(*MeshBasis, *elems)", lambda: MeshBasis(*MeshBasis(*objs), *objs)),
                     ("MeshBasis.from_iterable(map)", lambda: MeshBasis.from_iterable(map(lambda e: MeshPatt(Perm(e[0]), list(e[1])), el))),
                     ("Av(set)", lambda: Av(set(objs)).basis),
                     ("Av(generator)", lambda: Av(o for o in objs).basis),
                     ("Av(MeshBasis)", lambda: Av(MeshBasis(*objs)).basis),
                     ("Av.from_iterable(tuple)", lambda: Av.from_iterable(tuple(reversed(objs))).basis)]
        jel_ = [jel(p, R) for p, R in el]
        got = []
        for name, mk in forms:
            st, res = util.call(mk)
            if st == "raise":
                ctx.violation({"kind": "trace-form", "form": name, "elems": jel_}, "ConstructionSucceeds", "a basis", {"raised": res})
                continue
            nforms.add(name.split(" sep=")[0])
            events.append({"op": "Build", "form": name, "elems": jel_, "res": jres(res)})
            got.append(res)
        # canonical: all results of one kind are equal with equal hashes (judged by TLC from the element lists)
        for kind in (Basis, MeshBasis):
            same = [g for g in got if type(g) is kind]
            for g in same[1:]:
                events.append({"op": "Canon", "a": jel_, "b": jel_, "eq": bool(g == same[0] and not g != same[0]), "heq": hash(g) == hash(same[0])})
        allres.append((mesh, jel_, got[0] if got else None, objs))
    # different collections against each other (== iff the minimal sets coincide)
    pool = [x for x in allres if x[2] is not None]
    for _ in range(40 if quick else 400):
        a, b = rnd.choice(pool), rnd.choice(pool)
        if type(a[2]) is type(b[2]):
            events.append({"op": "Canon", "a": a[1], "b": b[1], "eq": bool(a[2] == b[2]), "heq": hash(a[2]) == hash(b[2])})
    # the class is the class of the input, at lengths beyond the machine's bound
    ncls = 0
    for mesh, jel_, res, objs in pool:
        if ncls >= (14 if quick else 120) or any(len(e["p"]) == 0 for e in jel_):
            continue
        n = 5 if mesh else rnd.choice([5, 6])
        st, cnt = util.call(lambda: Av(objs).count(n))
        if st == "raise":
            ctx.violation({"kind": "trace-form", "form": "Av(list).count", "elems": jel_}, "ConstructionSucceeds", "a number", {"raised": cnt})
            continue
        events.append({"op": "Class", "elems": jel_, "n": n, "count": cnt})
        ncls += 1
    # degenerate collections
    for name, mk in (("Basis()", lambda: Basis()), ("Basis.from_iterable([])", lambda: Basis.from_iterable([])),
                     ("Basis.from_iterable(empty generator)", lambda: Basis.from_iterable(x for x in ())),
                     ("Basis.from_string('')", lambda: Basis.from_string("")), ("Basis.from_string(no digits)", lambda: Basis.from_string(" ,_;")),
                     ("MeshBasis()", lambda: MeshBasis()), ("MeshBasis.from_iterable(set())", lambda: MeshBasis.from_iterable(set()))):
        st, res = util.call(mk)
        if st == "raise":
            ctx.violation({"kind": "trace-form", "form": name, "elems": []}, "ConstructionSucceeds", "the empty basis", {"raised": res})
        else:
            events.append({"op": "Build", "form": name, "elems": [], "res": jres(res)})
    ctx.note("container_forms_exercised", len(nforms))


def construction_events(ctx, rnd, quick, events):
    """Bases with two or three patterns on the SAME underlying permutation and equally many shaded cells (only the order of
    the cells could tell them apart in a sort key), the patterns built in every way represent() knows: the bases must be
    equal, hash alike and denote one class object whatever way their elements were built."""
    for it in range(60 if quick else 600):
        k = rnd.choice([1, 1, 2])
        p = util.rand_perm(rnd, k)
        cells = [(x, y) for x in range(k + 1) for y in range(k + 1)]
        size = rnd.randint(2, min(4, len(cells) - 1))
        shadings = []
        while len(shadings) < rnd.choice([2, 2, 3]):
            R = tuple(sorted(rnd.sample(cells, size)))
            if R not in shadings:
                shadings.append(R)
        jel_ = [jel(p, R) for R in shadings]
        ref = None
        for v in (0, 2, 4, 6, 8, 10):
            objs = [represent(p, R, v + 12 * i) for i, R in enumerate(shadings)]
            if v % 4 == 2:
                objs.reverse()
            st, B = util.call(lambda: MeshBasis(*objs))
            if st == "raise":
                ctx.violation({"kind": "trace-form", "form": "MeshBasis of differently built equal patterns", "elems": jel_}, "ConstructionSucceeds", "a basis", B)
                continue
            events.append({"op": "Build", "elems": jel_, "res": jres(B)})
            if ref is None:
                ref = (B, Av(B))
                continue
            events.append({"op": "Canon", "a": jel_, "b": jel_, "eq": bool(B == ref[0] and not B != ref[0]), "heq": hash(B) == hash(ref[0])})
            events.append({"op": "Ident", "a": jel_, "b": jel_, "same": Av(B) is ref[1]})
    Av.clear_cache()


def routes_session(ctx, rnd, quick, events):
    """History lens: one process, several epochs separated by clear_cache(); inside an epoch every route to a class
    (Av(Basis), Av(list), Av(generator), Av.from_iterable, Av.from_string 0-/1-based, mesh presentations with
    different subclasses) must give the one object, also after the class was enumerated; objects of different
    epochs are not compared (nothing is promised across clear_cache)."""
    s = {n: util.perms_of(n) for n in range(1, 6)}
    for epoch in range(3 if quick else 8):
        Av.clear_cache()
        reg = []
        for _ in range(10 if quick else 30):
            if rnd.random() < 0.6:
                el = [(rnd.choice(s[rnd.choice([2, 3, 3, 4, 5])]), ()) for _ in range(rnd.randint(1, 3))]
                objs = [Perm(p) for p, _ in el]
                if Basis(*objs) == Basis(Perm()):
                    continue
                t0 = " ".join("".join(str(v) for v in p) for p, _ in el)
                t1 = "\n".join("".join(str(v + 1) for v in p) for p, _ in reversed(el))
                routes = [lambda: Av(Basis(*objs)), lambda: Av(list(objs)), lambda: Av(o for o in reversed(objs)),
                          lambda: Av.from_iterable(set(objs)), lambda: Av.from_string(t0), lambda: Av.from_string(t1),
                          lambda: Av(Basis.from_string(t1)), lambda: Av(tuple(objs) + tuple(objs[:1]))]
            else:
                el = []
                for _ in range(rnd.randint(1, 2)):
                    k = rnd.choice([1, 2, 2, 3])
                    p = rnd.choice(s[k])
                    cols = [x for x in range(k + 1) if rnd.random() < 0.4]
                    rows = [y for y in range(k + 1) if rnd.random() < 0.2]
                    el.append((p, tuple(sorted({(x, y) for x in cols for y in range(k + 1)} | {(x, y) for y in rows for x in range(k + 1)}))))
                mk = lambda v: [represent(p, R, v + i) if R else MeshPatt(Perm(p), []) for i, (p, R) in enumerate(el)]
                routes = [lambda: Av(MeshBasis(*mk(0))), lambda: Av(mk(5)), lambda: Av(o for o in reversed(mk(2))),
                          lambda: Av.from_iterable(set(mk(8))), lambda: Av(MeshBasis.from_iterable(iter(mk(10) + mk(4)))),
                          lambda: Av(MeshBasis(*mk(6)))]
            rnd.shuffle(routes)
            jel_ = [jel(p, R) for p, R in el]
            st, first = util.call(routes[0])
            if st == "raise":
                ctx.violation({"kind": "trace-form", "form": "Av route", "elems": jel_}, "ConstructionSucceeds", "a class", {"raised": first})
                continue
            if rnd.random() < 0.5:
                first.count(rnd.randint(3, 5))               # the class is enumerated before it is requested again
            for r in routes[1:]:
                st, again = util.call(r)
                if st == "raise":
                    ctx.violation({"kind": "trace-form", "form": "Av route", "elems": jel_}, "ConstructionSucceeds", "a class", {"raised": again})
                    continue
                if type(again.basis) is type(first.basis):
                    events.append({"op": "Ident", "a": jel_, "b": list(reversed(jel_)), "same": again is first, "epoch": epoch})
            for jb, other in reg[-4:]:
                if type(other.basis) is type(first.basis):
                    events.append({"op": "Ident", "a": jel_, "b": jb, "same": other is first, "epoch": epoch})
            reg.append((jel_, first))
        # late in the epoch: the early classes once more, through a fresh route
        for jb, obj in reg[:5]:
            els = [represent(tuple(e["p"]), [tuple(c) for c in e["R"]], 1) if e["R"] else Perm(e["p"]) for e in jb]
            if isinstance(obj.basis, MeshBasis):
                els = [o if isinstance(o, MeshPatt) else MeshPatt(o, []) for o in els]
            st, again = util.call(lambda: Av(iter(els)))
            if st == "ok" and type(again.basis) is type(obj.basis):
                events.append({"op": "Ident", "a": jb, "b": jb, "same": again is obj, "epoch": epoch})
    Av.clear_cache()


COLD = r"""
import json, sys
from permuta import Av, Basis, MeshBasis, MeshPatt, Perm
spec = json.loads(sys.argv[1])
els = [tuple(p) for p in spec["elems"]]
t0 = " ".join("".join(str(v) for v in p) for p in els)
t1 = ",".join("".join(str(v + 1) for v in p) for p in reversed(els))
routes = {"from_string0": lambda: Av.from_string(t0), "from_string1": lambda: Av.from_string(t1),
          "basis": lambda: Av(Basis(*map(Perm, els))), "generator": lambda: Av(Perm(p) for p in reversed(els)),
          "from_iterable": lambda: Av.from_iterable(set(map(Perm, els))),
          "mesh": lambda: Av([MeshPatt(Perm(p), []) for p in els]), "meshbasis": lambda: Av(MeshBasis(*map(Perm, els)))}
objs = [routes[r]() for r in spec["routes"]]          # the very first calls of this process
if spec["count"]:
    objs[0].count(spec["count"])
objs += [routes[r]() for r in spec["routes"]]
out = []
for r, o in zip(spec["routes"] * 2, objs):
    out.append({"route": r, "kind": type(o.basis).__name__, "same": o is objs[0],
                "basis": [[list(e), []] if isinstance(e, Perm) else [list(e.pattern), sorted(map(list, e.shading))] for e in o.basis]})
print(json.dumps(out))
"""


def cold_start(ctx, rnd, quick, events):
    """History lens, cold start: fresh interpreter processes whose very first calls are class requests for one basis
    (larger elements, several routes); the objects must be one object per kind of basis and carry the minimal basis."""
    s = {n: util.perms_of(n) for n in (3, 4, 5)}
    names = ["from_string0", "from_string1", "basis", "generator", "from_iterable", "mesh", "meshbasis"]
    for it in range(3 if quick else 12):
        els = [util.rand_perm(rnd, rnd.choice([5, 6, 7, 8])) for _ in range(rnd.randint(1, 3))] + [rnd.choice(s[rnd.choice([3, 4, 5])])]
        els.append(grow(rnd, els[-1]))
        rnd.shuffle(els)
        routes = rnd.sample(names, 4)
        spec = {"elems": [list(p) for p in els], "routes": routes, "count": rnd.choice([0, 4, 6])}
        r = subprocess.run([sys.executable, "-c", COLD, json.dumps(spec)], capture_output=True, text=True, timeout=300)
        jel_ = [jel(p, ()) for p in els]
        if r.returncode != 0:
            ctx.violation({"kind": "cold-start", "spec": spec}, "ConstructionSucceeds", "class objects", {"stderr": r.stderr[-300:]})
            continue
        out = json.loads(r.stdout.strip().splitlines()[-1])
        for o in out:
            events.append({"op": "Build", "form": "cold start " + o["route"], "elems": jel_, "res": [{"p": e[0], "R": e[1]} for e in o["basis"]]})
            if o["kind"] == out[0]["kind"]:
                events.append({"op": "Ident", "a": jel_, "b": list(reversed(jel_)), "same": o["same"], "form": "cold start %s vs %s" % (out[0]["route"], o["route"])})


def judge(ctx, rnd, rec, avs):
    inp = [key(e) for e in rec["inp"]]
    want_seq = [key(e) for e in rec["basis"]]
    want = set(want_seq)
    classical = all(not R for _, R in inp)
    has_eps = any(len(p) == 0 for p, _ in inp)
    base = {"kind": "input", "inp": [{"p": list(p), "R": [list(c) for c in R]} for p, R in inp]}
    ctx.case(tuple(sorted(inp)), nontrivial=len(want) < len(inp))
    orders = list(itertools.permutations(inp))
    if len(orders) > 6:
        orders = orders[:3] + orders[-3:]
    orders.append(tuple(inp) + (inp[0],))                      # a repetition
    results = []
    for oi, order in enumerate(orders):
        ctors = []
        if classical:
            objs = [Perm(p) for p, _ in order]
            ctors.append(("Basis", lambda o=objs: Basis(*o)))
            ctors.append(("Basis.from_iterable", lambda o=objs: Basis.from_iterable(iter(o))))
            if not has_eps and all(len(p) <= 9 for p, _ in order):
                ctors.append(("Basis.from_string/0", lambda o=order: Basis.from_string("_".join("".join(str(v) for v in p) for p, _ in o))))
                ctors.append(("Basis.from_string/1", lambda o=order: Basis.from_string(", ".join("".join(str(v + 1) for v in p) for p, _ in o))))
            if not (want == {((), ())}):
                ctors.append(("Av", lambda o=objs: Av(list(o)).basis))
                ctors.append(("Av.from_iterable", lambda o=objs: Av.from_iterable(tuple(o)).basis))
                ctors.append(("Av.from_iterable(iterator)", lambda o=objs: Av.from_iterable(iter(o)).basis))
                ctors.append(("Av(iterator)", lambda o=objs: Av(iter(o)).basis))
                if not has_eps:
                    ctors.append(("Av.from_string", lambda o=order: Av.from_string("|".join("".join(str(v) for v in p) for p, _ in o)).basis))
        objs_m = [represent(p, R, oi + i) for i, (p, R) in enumerate(order)]
        if not classical or oi % 2 == 0:
            forced = objs_m if any(isinstance(o, MeshPatt) for o in objs_m) else [MeshPatt(objs_m[0], [])] + objs_m[1:]
            ctors.append(("MeshBasis", lambda o=forced: MeshBasis(*o)))
            ctors.append(("MeshBasis.from_iterable", lambda o=forced: MeshBasis.from_iterable(iter(o))))
            ctors.append(("Av(mesh list)", lambda o=forced: Av(list(o)).basis))
            ctors.append(("Av.from_iterable(mesh iterator)", lambda o=forced: Av.from_iterable(iter(o)).basis))
        for name, mk in ctors:
            st, got = util.call(mk)
            case = dict(base, ctor=name, order=[{"p": list(p), "R": [list(c) for c in R]} for p, R in order])
            if st == "raise":
                ctx.violation(case, "ConstructionSucceeds", sorted(want), {"raised": got})
                continue
            gk = [okey(o) for o in got]
            if set(gk) != want or len(gk) != len(want):
                ctx.violation(case, "ResultIsMinimal", sorted(want), gk)
                continue
            if gk != want_seq:
                ctx.drift("%s keeps the minimal elements in another order than the model's sort: %s" % (name, gk))
            results.append((name, got))
    # all results of one kind are equal objects with equal hashes, and fixed points
    for kind in (Basis, MeshBasis):
        same = [g for _, g in results if type(g) is kind]
        for g in same[1:]:
            if not (g == same[0] and hash(g) == hash(same[0])):
                ctx.violation(base, "OrderIndependent", [okey(o) for o in same[0]], [okey(o) for o in g])
                break
        if same:
            again = kind(*same[0])
            if not again == same[0]:
                ctx.violation(base, "FixedPoint", [okey(o) for o in same[0]], [okey(o) for o in again])
            for a, b in itertools.permutations(same[0], 2):
                if a.contains(b) if isinstance(a, MeshPatt) else a.contains(b):
                    ctx.violation(base, "Antichain", "no element contains another", [okey(a), okey(b)])
            # equal bases denote the same class object; the class is the class of the input
            valid = len(same[0]) > 0 and not (kind is Basis and same[0] == Basis(Perm()))
            if valid and not (kind is MeshBasis and has_eps):
                a1, a2 = Av(same[0]), Av(kind(*reversed(same[0])))
                if a1 is not a2:
                    ctx.violation(base, "EqualBasesSameObject", "one object", "two objects")
                k2 = (kind.__name__, frozenset(okey(o) for o in same[0]))
                if k2 in avs and avs[k2] is not a1:
                    ctx.violation(base, "EqualBasesSameObject", "the object created earlier in this process", "a new object")
                avs[k2] = a1
                got = [a1.count(n) for n in range(CLASSLEN + 1)]
                if got != rec["counts"]:
                    ctx.violation(base, "SameClass", rec["counts"], got)


def replay(ctx, path):
    rec = json.load(open(path))
    case = rec["case"]
    if case["kind"] != "input":
        raise tlc.MachineryFailure("trace events are replayed by re-running the check with the same VERIF_SEED")
    inp = [(tuple(e["p"]), tuple(map(tuple, e["R"]))) for e in case["inp"]]
    mod = util.mc_module("MC_C05", "C05_Basis", {"InputsDef": tla_inputs([inp])})
    k = {"Inputs": ("<-", "InputsDef"), "KeyMode": '"cardinality"', "ClassLen": CLASSLEN}
    r = tlc.run_tlc("MC_C05", util.cfg(init="Init", next_="Next", invariants=INVS + ["EmitDone"], constants=k), files={"MC_C05.tla": mod}, timeout=600)
    before = len(ctx.violations)
    for s in r.records:
        judge(ctx, util.rng(ctx, 5), s, {})
    if len(ctx.violations) > before:
        return 1
    print("replay: case passes on the current tree")
    return 0
