"""C18 - shading-lemma licences and point insertion preserve meaning; lookups and rendering are faithful.

spec -> code : every mesh pattern of length <= 2 is a state of C18_Shading carrying, per cell / adjacent
               pair, whether shading it preserves the contain-set over the universe (the *meaning* of a
               licence), the expected add_point / add_increase / add_decrease results, region tests,
               anchoring, rank and the rendering matrix; the real methods are compared with these.
               A licence of the real code that changes the meaning is a VIOLATION; a licence set that
               differs from the transcribed lemma is DRIFT.
code -> spec : licences and insertions of the real code on sampled patterns of length 3, judged by
               Trace_C18 (meaning over permutations up to length 5).
"""
import json

from permuta import MeshPatt, Perm
from permuta.misc import DIR_EAST, DIR_NONE, DIR_NORTH, DIR_SOUTH, DIR_WEST

from harness import tlc, util

INVS = ["TypeOK", "LemmaSound", "SimulSound", "AddPointMeaning"]
DIRS = {"none": DIR_NONE, "E": DIR_EAST, "N": DIR_NORTH, "W": DIR_WEST, "S": DIR_SOUTH}
SYM = {" ": "E", "▒": "S", "|": "V", "-": "H", "+": "X", "●": "P"}


def mkey(M):
    return (tuple(M.pattern), tuple(sorted(M.shading)))


def parse_ascii(text, k):
    rows = text.split("\n")
    out = []
    for r in rows:
        r = r.ljust(2 * k + 1)
        out.append([SYM.get(ch, "?") for ch in r])
    return out


def judge_state(ctx, rec):
    p, R = rec["p"], [tuple(c) for c in rec["R"]]
    k = len(p)
    M = MeshPatt(Perm(p), R)
    base = {"kind": "state", "p": p, "R": sorted(map(list, R))}
    nontriv = False
    # --- licences
    licensed = set()
    for e in rec["cells"]:
        c = tuple(e["c"])
        st, got = util.call(M.can_shade, c)
        if st == "raise":
            ctx.violation(dict(base, cell=c), "NoException", "a list", got)
            continue
        if got:
            nontriv = True
            licensed.add((c,))
            if not e["sem"]:
                ctx.violation(dict(base, cell=list(c), licence=list(got)), "LicenceChangesMeaning",
                              "no licence (shading this cell changes the set of containing permutations)", list(got))
        if bool(got) != e["lemma"]:
            ctx.drift("can_shade%s of %s is %s, transcribed lemma says %s" % (c, mkey(M), got, e["lemma"]))
    for e in rec["pairs"]:
        c, d = tuple(e["c"]), tuple(e["d"])
        st, got = util.call(M.can_simul_shade, c, d)
        if st == "raise":
            ctx.violation(dict(base, cells=[c, d]), "NoException", "a list", got)
            continue
        if got:
            nontriv = True
            licensed.add((c, d))
            if not e["sem"]:
                ctx.violation(dict(base, cells=[list(c), list(d)], licence=list(got)), "LicenceChangesMeaning",
                              "no licence (shading both cells changes the set of containing permutations)", list(got))
        if bool(got) != e["lemma"]:
            ctx.drift("can_simul_shade%s of %s is %s, transcribed lemma says %s" % ((c, d), mkey(M), got, e["lemma"]))
    # the table of all shadable boxes must license exactly what the single tests license
    st, table = util.call(M.shadable_boxes)
    if st == "raise":
        ctx.violation(base, "NoException", "a dict", table)
    else:
        sem1 = {tuple(e["c"]): e["sem"] for e in rec["cells"]}
        sem2 = {(tuple(e["c"]), tuple(e["d"])): e["sem"] for e in rec["pairs"]}
        for pnt, boxes in table.items():
            for b in boxes:
                b = tuple(tuple(x) for x in b)
                ok = sem1.get(b[0]) if len(b) == 1 else sem2.get((b[0], b[1]), sem2.get((b[1], b[0])))
                if not ok:
                    ctx.violation(dict(base, boxes=[list(x) for x in b], point=pnt), "LicenceChangesMeaning",
                                  "not in the table", "listed as shadable")
        flat = {tuple(tuple(x) for x in b) for boxes in table.values() for b in boxes}
        if flat != licensed:
            ctx.drift("shadable_boxes of %s lists %s, the single tests license %s" % (mkey(M), sorted(flat), sorted(licensed)))
    # --- point insertion
    for e in rec["addp"]:
        c = tuple(e["c"])
        want = (tuple(e["p"]), tuple(sorted(map(tuple, e["R"]))))
        st, got = util.call(M.add_point, c, DIRS[e["dir"]]) if e["dir"] != "none" else util.call(M.add_point, c)
        if st == "raise" or mkey(got) != want:
            ctx.violation(dict(base, cell=list(c), dir=e["dir"]), "AddPointIsDiagramInsertion", want, mkey(got) if st == "ok" else got)
    for name, key in (("add_increase", "addinc"), ("add_decrease", "adddec")):
        for e in rec[key]:
            c = tuple(e["c"])
            want = (tuple(e["p"]), tuple(sorted(map(tuple, e["R"]))))
            st, got = util.call(getattr(M, name), c)
            if st == "raise" or mkey(got) != want:
                ctx.violation(dict(base, cell=list(c), op=name), "AddPointIsDiagramInsertion", want, mkey(got) if st == "ok" else got)
    # --- lookups and region tests
    for e in rec["rects"]:
        l, b, r, u = e["r"]
        st, got = util.call(M.is_shaded, (l, b), (r, u))
        if st == "raise" or got != e["shaded"]:
            ctx.violation(dict(base, rect=e["r"]), "RegionShaded", e["shaded"], got)
        st, got = util.call(M.is_pointfree, (l, b), (r, u))
        if st == "raise" or got != e["pointfree"]:
            ctx.violation(dict(base, rect=e["r"]), "RegionPointFree", e["pointfree"], got)
        if (l, b) == (r, u):
            st, got = util.call(M.is_shaded, (l, b))
            if st == "raise" or got != e["shaded"]:
                ctx.violation(dict(base, cell=[l, b]), "RegionShaded", e["shaded"], got)
    st, got = util.call(M.non_pointless_boxes)
    if st == "raise" or {tuple(x) for x in got} != {tuple(x) for x in rec["nonpointless"]}:
        ctx.violation(base, "NonPointlessBoxes", sorted(rec["nonpointless"]), got)
    st, got = util.call(M.has_anchored_point)
    if st == "raise" or list(got) != rec["anchored"]:
        ctx.violation(base, "AnchoredPoint", rec["anchored"], got)
    st, got = util.call(M.rank)
    if st == "raise" or got != rec["rank"]:
        ctx.violation(base, "RankIsShading", rec["rank"], got)
    cells = [tuple(e["c"]) for e in rec["cells"] if not e["c"] in [list(x) for x in R]]
    if cells:
        c = cells[len(cells) // 2]
        st, got = util.call(M.shade, c)
        if st == "raise" or mkey(got) != (tuple(p), tuple(sorted(set(R) | {c}))):
            ctx.violation(dict(base, cell=list(c)), "ShadeAddsCell", sorted(set(R) | {c}), got)
    # --- rendering parses back to the pattern
    st, txt = util.call(M.ascii_plot)
    if st == "raise":
        ctx.violation(base, "NoException", "text", txt)
    elif parse_ascii(txt, k) != rec["ascii"]:
        ctx.violation(base, "RenderingFaithful", rec["ascii"], parse_ascii(txt, k))
    ctx.case(mkey(M), nontrivial=nontriv)


def sample3(rnd, n):
    out = []
    for _ in range(n):
        p = util.rand_perm(rnd, 3)
        dens = rnd.choice([0.1, 0.3, 0.5])
        R = [(x, y) for x in range(4) for y in range(4) if rnd.random() < dens]
        out.append((p, R))
    return out


def run(ctx):
    quick = ctx.tier == "quick"
    rnd = util.rng(ctx, 18)
    nsh = 16
    jobs = []
    for s in range(nsh):
        k = {"Mode": '"mesh"', "MinMesh": 0, "MaxMesh": 2, "MaxPerm": 4 if quick else 5, "Shard": s, "NShards": nsh, "Sample": "{}"}
        jobs.append(("C18_Shading", util.cfg(init="Init", next_="Stutter", invariants=INVS + ["EmitState"], constants=k), {"timeout": 3000}))
    results = tlc.run_many(jobs, parallel=16)
    n = 0
    for r in results:
        ctx.add_tlc(r, "mesh universe shard")
        for rec in r.records:
            n += 1
            judge_state(ctx, rec)
            if n % 401 == 0:
                ctx.sample({"machine": "C18_Shading", "p": rec["p"], "R": rec["R"], "cells": rec["cells"][:3], "addp": rec["addp"][:1]})
    if n != 1042:
        raise tlc.MachineryFailure("C18: %d states, expected all 1042 mesh patterns of length <= 2" % n)
    ctx.exhaustive = True
    # ---- code -> spec: length-3 patterns, the code's licences and insertions judged by meaning ----
    events = []
    nlic = 0
    for p, R in sample3(rnd, 60 if quick else 600):
        M = MeshPatt(Perm(p), R)
        jp, jR = list(p), [list(c) for c in R]
        for x in range(4):
            for y in range(4):
                if M.can_shade((x, y)):
                    events.append({"op": "Licence", "p": jp, "R": jR, "cells": [[x, y]]})
                for d in ((x + 1, y), (x, y + 1)):
                    if d[0] <= 3 and d[1] <= 3 and M.can_simul_shade((x, y), d):
                        events.append({"op": "Licence", "p": jp, "R": jR, "cells": [[x, y], list(d)]})
        free = [(x, y) for x in range(4) for y in range(4) if (x, y) not in M.shading]
        for c in free[:: max(1, len(free) // 3)]:
            d = rnd.choice(list(DIRS))
            A = M.add_point(c, DIRS[d]) if d != "none" else M.add_point(c)
            events.append({"op": "AddPoint", "p": jp, "R": jR, "c": list(c), "dir": d, "resp": list(A.pattern), "resR": [list(z) for z in A.shading]})
    nlic = sum(1 for e in events if e["op"] == "Licence")
    if nlic == 0:
        raise tlc.MachineryFailure("C18: the sampled patterns produced no licence at all")
    cap = 400 if quick else 4000
    events = events[:cap]
    # validated in parallel chunks (each licence costs ~150 containment tests)
    chunks = [events[i::8] for i in range(8)]
    k = {"Mode": '"trace"', "MinMesh": 0, "MaxMesh": 0, "MaxPerm": 5, "Shard": 0, "NShards": 1, "Sample": "{}"}
    import concurrent.futures
    with concurrent.futures.ThreadPoolExecutor(max_workers=8) as ex:
        vs = list(ex.map(lambda ch: util.validate_trace(ctx, "Trace_C18", ch, constants=k, ntraces=len(ch)) if ch else {"verdict": []}, chunks))
    for ch, v in zip(chunks, vs):
        for b in v["verdict"]:
            ev = ch[b["i"] - 1]
            ctx.violation({"kind": "trace-event", "event": ev}, b["clause"], "meaning preserved / diagram insertion", ev)
    ctx.case(n=len(events))
    ctx.note("licences_judged_on_length3", nlic)
    ctx.sample({"machine": "Trace_C18", "events": events[:2]})
    ctx.rule = ("every mesh pattern of length <= 2 is a TLC state with the meaning of every possible licence, the expected "
                "insertions, region tests, anchoring, rank and rendering; the real methods are compared with them; "
                "non-trivial = the real code licenses at least one shading for the pattern; plus licences/insertions on "
                "sampled length-3 patterns judged by Trace_C18")
    ctx.assumptions.append("a licence is refuted only by a permutation within the bound (length <= 4 quick, 5 thorough / traces)")


def replay(ctx, path):
    rec = json.load(open(path))
    case = rec["case"]
    if case["kind"] == "state":
        M = "[p |-> %s, R |-> {%s}]" % (tlc.tla(case["p"]), ", ".join(tlc.tla(list(c)) for c in case["R"]))
        k = {"Mode": '"sample"', "MinMesh": 0, "MaxMesh": 0, "MaxPerm": 5, "Shard": 0, "NShards": 1, "Sample": ("<-", "SampleDef")}
        r = tlc.run_tlc("MC_C18", util.cfg(init="Init", next_="Stutter", invariants=INVS + ["EmitState"], constants=k),
                        files={"MC_C18.tla": util.mc_module("MC_C18", "C18_Shading", {"SampleDef": "{" + M + "}"})}, timeout=600)
        before = len(ctx.violations)
        for s in r.records:
            judge_state(ctx, s)
        if len(ctx.violations) > before:
            return 1
        print("replay: case passes on the current tree")
        return 0
    raise tlc.MachineryFailure("trace events are replayed by re-running the check with the same VERIF_SEED")
