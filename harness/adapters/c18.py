"""C18 - shading-lemma licences and point insertion preserve meaning; lookups and rendering are faithful.

spec -> code : every mesh pattern of length <= 2 is a state of C18_Shading carrying, per cell / adjacent
               pair, whether shading it preserves the contain-set over the universe (the *meaning* of a
               licence), the expected add_point / add_increase / add_decrease results, region tests,
               anchoring, rank and the rendering matrix; the real methods are compared with these.
               A licence of the real code that changes the meaning is a VIOLATION; a licence set that
               differs from the transcribed lemma is DRIFT.
code -> spec : licences and insertions of the real code on sampled patterns of length 3, judged by
               Trace_C18 (meaning over permutations up to length 5).
"""
import json
import random

from permuta import MeshPatt, Perm
from permuta.misc import DIR_EAST, DIR_NONE, DIR_NORTH, DIR_SOUTH, DIR_WEST

from harness import tlc, util

INVS = ["TypeOK", "LemmaSound", "SimulSound", "AddPointMeaning", "AsciiScales"]
DIRS = {"none": DIR_NONE, "E": DIR_EAST, "N": DIR_NORTH, "W": DIR_WEST, "S": DIR_SOUTH}
SYM = {" ": "E", "▒": "S", "|": "V", "-": "H", "+": "X", "●": "P"}


def mkey(M):
    return (tuple(M.pattern), tuple(sorted(M.shading)))


def parse_ascii(text, k, size=1):
    rows = text.split("\n")
    out = []
    for r in rows:
        r = r.ljust((k + 1) * size + k)
        out.append([SYM.get(ch, "?") for ch in r])
    return out


def judge_state(ctx, rec):
    p, R = rec["p"], [tuple(c) for c in rec["R"]]
    k = len(p)
    M = MeshPatt(Perm(p), R)
    base = {"kind": "state", "p": p, "R": sorted(map(list, R))}
    nontriv = False
    # --- licences (asked at the start and once more after everything else was asked of the same object)
    sem1 = {tuple(e["c"]): e["sem"] for e in rec["cells"]}
    sem2 = {frozenset((tuple(e["c"]), tuple(e["d"]))): e["sem"] for e in rec["pairs"]}
    licensed = set()

    def licences(asked):
        nonlocal nontriv
        mine = set()
        for e in rec["cells"]:
            c = tuple(e["c"])
            forms = [("can_shade(c)", lambda: M.can_shade(c))]
            if asked == "again":
                forms = [("can_shade(pos=c)", lambda: M.can_shade(pos=c))]
            for fname, f in forms:
                st, got = util.call(f)
                if st == "raise":
                    ctx.violation(dict(base, cell=c, form=fname, asked=asked), "NoException", "a list", got)
                    continue
                if got:
                    nontriv = True
                    mine.add((c,))
                    if not e["sem"]:
                        ctx.violation(dict(base, cell=list(c), licence=list(got), form=fname, asked=asked), "LicenceChangesMeaning",
                                      "no licence (shading this cell changes the set of containing permutations)", list(got))
                if bool(got) != e["lemma"]:
                    ctx.drift("can_shade%s of %s is %s, transcribed lemma says %s" % (c, mkey(M), got, e["lemma"]))
        for e in rec["pairs"]:
            c, d = tuple(e["c"]), tuple(e["d"])
            forms = [("can_simul_shade(c, d)", lambda: M.can_simul_shade(c, d)), ("can_simul_shade(d, c)", lambda: M.can_simul_shade(d, c))]
            if asked == "again":
                forms = [("can_simul_shade(pos1=d, pos2=c)", lambda: M.can_simul_shade(pos1=d, pos2=c)), ("can_shade2(c, d)", lambda: M.can_shade2(c, d))]
            for fi, (fname, f) in enumerate(forms):
                st, got = util.call(f)
                if st == "raise":
                    ctx.violation(dict(base, cells=[c, d], form=fname, asked=asked), "NoException", "a list", got)
                    continue
                if got:
                    nontriv = True
                    mine.add((c, d))
                    if not e["sem"]:
                        ctx.violation(dict(base, cells=[list(c), list(d)], licence=list(got), form=fname, asked=asked), "LicenceChangesMeaning",
                                      "no licence (shading both cells changes the set of containing permutations)", list(got))
                if bool(got) != e["lemma"] and fi == 0 and asked == "first":
                    ctx.drift("can_simul_shade%s of %s is %s, transcribed lemma says %s" % ((c, d), mkey(M), got, e["lemma"]))
        # the table of all shadable boxes must license exactly what the single tests license
        st, table = util.call(M.shadable_boxes)
        if st == "raise":
            ctx.violation(dict(base, asked=asked), "NoException", "a dict", table)
        else:
            for pnt, boxes in table.items():
                for b in boxes:
                    b = tuple(tuple(x) for x in b)
                    ok = sem1.get(b[0]) if len(b) == 1 else sem2.get(frozenset(b))
                    if not ok:
                        ctx.violation(dict(base, boxes=[list(x) for x in b], point=pnt, asked=asked), "LicenceChangesMeaning",
                                      "not in the table", "listed as shadable")
            flat = {tuple(tuple(x) for x in b) for boxes in table.values() for b in boxes}
            if flat != mine:
                ctx.drift("shadable_boxes of %s lists %s, the single tests license %s" % (mkey(M), sorted(flat), sorted(mine)))
        return mine

    licensed = licences("first")
    # degenerate / non-adjacent pairs: whatever the code licenses there must preserve the meaning too (the spec's
    # meaning of shading a set of cells; known from the emitted single / adjacent verdicts where possible)
    cs = [tuple(e["c"]) for e in rec["cells"]]
    for c in cs[:: max(1, len(cs) // 4)]:
        st, got = util.call(M.can_simul_shade, c, c)
        if st == "ok" and got and not sem1[c]:
            ctx.violation(dict(base, cells=[list(c), list(c)], licence=list(got)), "LicenceChangesMeaning", "no licence", list(got))
    # --- point insertion
    for e in rec["addp"]:
        c = tuple(e["c"])
        want = (tuple(e["p"]), tuple(sorted(map(tuple, e["R"]))))
        st, got = util.call(M.add_point, c, DIRS[e["dir"]]) if e["dir"] != "none" else util.call(M.add_point, c)
        if st == "raise" or mkey(got) != want:
            ctx.violation(dict(base, cell=list(c), dir=e["dir"]), "AddPointIsDiagramInsertion", want, mkey(got) if st == "ok" else got)
    for name, key in (("add_increase", "addinc"), ("add_decrease", "adddec")):
        for e in rec[key]:
            c = tuple(e["c"])
            want = (tuple(e["p"]), tuple(sorted(map(tuple, e["R"]))))
            st, got = util.call(getattr(M, name), c)
            if st == "raise" or mkey(got) != want:
                ctx.violation(dict(base, cell=list(c), op=name), "AddPointIsDiagramInsertion", want, mkey(got) if st == "ok" else got)
    # the same object again: keyword arguments, another order of cells and directions, after add_increase / add_decrease
    again = list(rec["addp"])
    random.Random(len(again) + len(R)).shuffle(again)
    for e in again:
        c = tuple(e["c"])
        want = (tuple(e["p"]), tuple(sorted(map(tuple, e["R"]))))
        st, got = util.call(lambda: M.add_point(pos=c, shade_dir=DIRS[e["dir"]]))
        if st == "raise" or mkey(got) != want:
            ctx.violation(dict(base, cell=list(c), dir=e["dir"], asked="again", form="add_point(pos=, shade_dir=)"), "AddPointIsDiagramInsertion", want, mkey(got) if st == "ok" else got)
    # --- lookups and region tests
    for e in rec["rects"]:
        l, b, r, u = e["r"]
        st, got = util.call(M.is_shaded, (l, b), (r, u))
        if st == "raise" or got != e["shaded"]:
            ctx.violation(dict(base, rect=e["r"]), "RegionShaded", e["shaded"], got)
        st, got = util.call(M.is_pointfree, (l, b), (r, u))
        if st == "raise" or got != e["pointfree"]:
            ctx.violation(dict(base, rect=e["r"]), "RegionPointFree", e["pointfree"], got)
        if (l, b) == (r, u):
            for fname, f in (("is_shaded(c)", lambda: M.is_shaded((l, b))), ("is_shaded(c, None)", lambda: M.is_shaded((l, b), None)),
                             ("is_shaded(lower_left=c)", lambda: M.is_shaded(lower_left=(l, b)))):
                st, got = util.call(f)
                if st == "raise" or got != e["shaded"]:
                    ctx.violation(dict(base, cell=[l, b], form=fname), "RegionShaded", e["shaded"], got)
        elif (l + b + r + u) % 3 == 0:
            st, got = util.call(lambda: (M.is_shaded(lower_left=(l, b), upper_right=(r, u)), M.is_pointfree(lower_left=(l, b), upper_right=(r, u))))
            if st == "raise" or got != (e["shaded"], e["pointfree"]):
                ctx.violation(dict(base, rect=e["r"], form="keywords"), "RegionShaded" if st == "raise" or got[0] != e["shaded"] else "RegionPointFree",
                              [e["shaded"], e["pointfree"]], got)
    st, got = util.call(M.non_pointless_boxes)
    if st == "raise" or {tuple(x) for x in got} != {tuple(x) for x in rec["nonpointless"]}:
        ctx.violation(base, "NonPointlessBoxes", sorted(rec["nonpointless"]), got)
    st, got = util.call(M.has_anchored_point)
    if st == "raise" or list(got) != rec["anchored"]:
        ctx.violation(base, "AnchoredPoint", rec["anchored"], got)
    st, got = util.call(M.rank)
    if st == "raise" or got != rec["rank"]:
        ctx.violation(base, "RankIsShading", rec["rank"], got)
    cells = [tuple(e["c"]) for e in rec["cells"] if not e["c"] in [list(x) for x in R]]
    if cells:
        c = cells[len(cells) // 2]
        st, got = util.call(M.shade, c)
        if st == "raise" or mkey(got) != (tuple(p), tuple(sorted(set(R) | {c}))):
            ctx.violation(dict(base, cell=list(c)), "ShadeAddsCell", sorted(set(R) | {c}), got)
    # --- rendering parses back to the pattern (cell sizes 1 and 2, positional and keyword)
    for size, key, f in ((1, "ascii", M.ascii_plot), (1, "ascii", lambda: M.ascii_plot(cell_size=1)), (2, "ascii2", lambda: M.ascii_plot(2)),
                         (2, "ascii2", lambda: M.ascii_plot(cell_size=2))):
        st, txt = util.call(f)
        if st == "raise":
            ctx.violation(dict(base, cell_size=size), "NoException", "text", txt)
        elif parse_ascii(txt, k, size) != rec[key]:
            ctx.violation(dict(base, cell_size=size), "RenderingFaithful", rec[key], parse_ascii(txt, k, size))
    # --- the same object asked for its licences again, after insertions, shadings and renderings
    if licences("again") != licensed:
        ctx.drift("%s licenses another set of shadings when the same object is asked again" % (mkey(M),))
    ctx.case(mkey(M), nontrivial=nontriv)


def sample3(rnd, n, special=False):
    out = []
    for i in range(n):
        p = util.rand_perm(rnd, 3)
        dens = rnd.choice([0.1, 0.3, 0.5])
        R = [(x, y) for x in range(4) for y in range(4) if rnd.random() < dens]
        if special and i % 4 == 1:                       # shading only on the border of the grid
            R = [(x, y) for x in range(4) for y in range(4) if (x in (0, 3) or y in (0, 3)) and rnd.random() < 0.4]
        if special and i % 4 == 2:                       # unshaded / a single cell
            R = [] if i % 8 == 2 else [(rnd.randrange(4), rnd.randrange(4))]
        out.append((p, R))
    return out


def jm(p, R):
    return {"p": list(p), "R": [list(c) for c in R]}


def cheap_events(ctx, rnd, quick):
    """code -> spec, diagram level (no meaning involved, cheap for TLC): insertions in all five directions on ONE object
    in a random order, add_increase / add_decrease afterwards, shade with several / no / repeated / already shaded cells,
    region tests on degenerate, wide and tall rectangles, renderings with cell sizes 1-3; patterns of length 0-6 including
    unshaded and fully shaded grids."""
    ev = []
    for it in range(40 if quick else 400):
        k = rnd.choice([0, 1, 3, 4, 4, 5, 6])
        p = util.rand_perm(rnd, k)
        cells = [(x, y) for x in range(k + 1) for y in range(k + 1)]
        dens = rnd.choice([0.0, 0.2, 0.5, 0.9, 1.0])
        R = [c for c in cells if rnd.random() < dens]
        M = MeshPatt(Perm(p), R)
        base = jm(p, R)
        free = [c for c in cells if c not in M.shading]
        corners = [c for c in free if c[0] in (0, k) or c[1] in (0, k)]
        picks = (rnd.sample(corners, min(2, len(corners))) + rnd.sample(free, min(2, len(free)))) if free else []
        for c in picks:
            dirs = list(DIRS)
            rnd.shuffle(dirs)
            for d in dirs + dirs[:2]:                     # all five on one object and one cell, then two of them again
                st, A = util.call(lambda: M.add_point(c, DIRS[d]) if it % 2 else M.add_point(pos=c, shade_dir=DIRS[d]))
                if st == "raise":
                    ctx.violation(dict(kind="trace-form", op="add_point", cell=list(c), dir=d, **base), "NoException", "a pattern", A)
                    continue
                ev.append(dict(base, op="AddPoint", c=list(c), dir=d, resp=list(A.pattern), resR=[list(z) for z in A.shading]))
            for kind, f in (("inc", M.add_increase), ("dec", M.add_decrease)):
                st, A = util.call(f, c)
                if st == "raise":
                    ctx.violation(dict(kind="trace-form", op="add_" + kind, cell=list(c), **base), "NoException", "a pattern", A)
                    continue
                ev.append(dict(base, op="AddTwo", c=list(c), kind=kind, resp=list(A.pattern), resR=[list(z) for z in A.shading]))
        for cs in ((), tuple(free[:1]), tuple(free[:3]), tuple(free[:1]) * 2, tuple(R[:1]) + tuple(free[-1:]), tuple(R[:2])):
            st, A = util.call(M.shade, *cs)
            if st == "raise":
                ctx.violation(dict(kind="trace-form", op="shade", cells=[list(c) for c in cs], **base), "NoException", "a pattern", A)
                continue
            ev.append(dict(base, op="Shade", cells=[list(c) for c in cs], resp=list(A.pattern), resR=[list(z) for z in A.shading]))
        rects = [(0, 0, k, k), (0, 0, 0, 0), (k, k, k, k), (0, 0, k, 0), (0, 0, 0, k), (0, k, k, k), (k, 0, k, k)]
        for _ in range(8):
            l, r = sorted((rnd.randint(0, k), rnd.randint(0, k)))
            b, u = sorted((rnd.randint(0, k), rnd.randint(0, k)))
            rects.append((l, b, r, u))
        if k:
            i = rnd.randrange(k)                          # rectangles touching a point on each side
            rects += [(i, 0, i + 1, k), (0, p[i], k, p[i] + 1), (i, p[i], i + 1, p[i] + 1), (i + 1, 0, k, k), (0, 0, i, k), (i, p[i], k, p[i]), (i, p[i] + 1, k, p[i] + 1)]
        for l, b, r, u in rects:
            st, got = util.call(lambda: (M.is_shaded((l, b), (r, u)), M.is_pointfree((l, b), (r, u))))
            if st == "raise":
                ctx.violation(dict(kind="trace-form", op="is_shaded/is_pointfree", rect=[l, b, r, u], **base), "NoException", "two booleans", got)
                continue
            ev.append(dict(base, op="Rect", r=[l, b, r, u], shaded=got[0], pointfree=got[1]))
        if k <= 4:
            size = rnd.choice([1, 2, 2, 3])
            st, txt = util.call(lambda: M.ascii_plot(size) if it % 2 else M.ascii_plot(cell_size=size))
            if st == "raise":
                ctx.violation(dict(kind="trace-form", op="ascii_plot", cell_size=size, **base), "NoException", "text", txt)
            else:
                ev.append(dict(base, op="Ascii", s=size, rows=parse_ascii(txt, k, size)))
    return ev


def licence_events(M, jp, jR, rnd, extra_pairs=4):
    """Everything the real code licenses on M, through every entry point: single cells, adjacent pairs in both argument
    orders, the table, and (whatever the code says about them) a few non-adjacent or repeated pairs."""
    k = len(M)
    seen, out = set(), []

    def lic(cells):
        key = frozenset(cells)
        if key not in seen:
            seen.add(key)
            out.append({"op": "Licence", "p": jp, "R": jR, "cells": [list(c) for c in sorted(key)]})
    for x in range(k + 1):
        for y in range(k + 1):
            if M.can_shade((x, y)):
                lic([(x, y)])
            for d in ((x + 1, y), (x, y + 1)):
                if d[0] <= k and d[1] <= k and (M.can_simul_shade((x, y), d) or M.can_simul_shade(pos1=d, pos2=(x, y))):
                    lic([(x, y), d])
    for boxes in M.shadable_boxes().values():
        for b in boxes:
            lic([tuple(c) for c in b])
    for _ in range(extra_pairs):
        c = (rnd.randint(0, k), rnd.randint(0, k))
        d = rnd.choice([c, (rnd.randint(0, k), rnd.randint(0, k)), (min(k, c[0] + 1), min(k, c[1] + 1))])
        st, got = util.call(M.can_simul_shade, c, d)
        if st == "ok" and got:
            lic([c, d])
    return out


def long_licence_events(ctx, rnd, quick):
    """Patterns of 33-40 points (grids whose column / row numbers leave 32 bits): what the real code licenses there cannot be
    explored by meaning, but a wrong licence has a small witness - the pattern's own points plus one point in the licensed
    cell and at most one more.  The harness looks for such a permutation with the library's own containment test (fast,
    not trusted) and hands it to TLC as a Refuted event: only a witness the specification confirms counts."""
    ev = []
    nlic = ncand = 0
    for it in range(5 if quick else 40):
        n = rnd.choice([33, 33, 34, 36, 40])
        p = list(range(n))
        for _ in range(rnd.randint(1, 3)):                 # a few adjacent transpositions: points with close neighbours
            i = rnd.choice([rnd.randrange(n - 1), rnd.randrange(3), n - 2 - rnd.randrange(3)])
            p[i], p[i + 1] = p[i + 1], p[i]
        edge = [0, 1, 2, n - 2, n - 1, n, 31, 32, 33]
        R = set()
        for _ in range(rnd.randint(1, 5)):                 # shaded cells near the border, across the 32nd line, near the swaps
            R.add((rnd.choice(edge + [rnd.randint(0, n)]), rnd.choice(edge + [rnd.randint(0, n)])))
        M = MeshPatt(Perm(p), sorted(R))
        jp, jR = list(p), [list(c) for c in sorted(R)]
        cells = [(x, y) for x in range(n + 1) for y in range(n + 1) if (x, y) not in R]
        licensed = []
        for c in cells:
            st, got = util.call(M.can_shade, c)
            if st == "raise":
                ctx.violation({"kind": "long pattern", "p": jp, "R": jR, "cell": list(c)}, "NoException", "a list", got)
            elif got:
                licensed.append(c)
        rnd.shuffle(licensed)
        # cells whose row or column holds a shaded cell first: their licences depend on it
        licensed.sort(key=lambda c: not any(c[0] == a or c[1] == b for a, b in R))
        for c in licensed[: (6 if quick else 12)]:
            nlic += 1
            M1 = M.add_point(c)
            shaded = M.shade(c)
            cands = [Perm(M1.pattern)]
            for d in [(a, b) for a in range(n + 2) for b in range(n + 2) if (a, b) not in M1.shading
                      and (abs(a - c[0]) <= 2 or abs(b - c[1]) <= 2 or rnd.random() < 0.05)]:
                cands.append(Perm(M1.add_point(d).pattern))
            for q in cands:
                ncand += 1
                if q.contains(M) and not q.contains(shaded):
                    ev.append({"op": "Refuted", "p": jp, "R": jR, "cells": [list(c)], "q": list(q)})
                    break
    ctx.note("long_patterns", {"licences_examined": nlic, "witness_candidates_tried": ncand, "witnesses_offered_to_TLC": len(ev)})
    return ev


def weak_hash_events(ctx):
    """Run in the weak-hash interpreter (harness/weakhash.py): the diagram-level events, recorded where patterns share a few hash values."""
    return cheap_events(ctx, util.rng(ctx, 1818), True)


def run(ctx):
    quick = ctx.tier == "quick"
    weak = util.weak_hash_start(ctx, "c18", "weak_hash_events")
    rnd = util.rng(ctx, 18)
    nsh = 16
    jobs = []
    for s in range(nsh):
        k = {"Mode": '"mesh"', "MinMesh": 0, "MaxMesh": 2, "MaxPerm": 4 if quick else 5, "Shard": s, "NShards": nsh, "Sample": "{}"}
        jobs.append(("C18_Shading", util.cfg(init="Init", next_="Stutter", invariants=INVS + ["EmitState"], constants=k), {"timeout": 3000}))
    # sampled patterns of length 3 as states of the same machine (meaning over permutations up to length 5)
    smp = sorted({(p, tuple(sorted(R))) for p, R in sample3(rnd, 8 if quick else 96, special=True)})
    per = 2 if quick else 6
    sjobs = []
    for i in range(0, len(smp), per):
        sdef = "{" + ", ".join("[p |-> %s, R |-> {%s}]" % (tlc.tla(list(p)), ", ".join(tlc.tla(list(c)) for c in R)) for p, R in smp[i:i + per]) + "}"
        k = {"Mode": '"sample"', "MinMesh": 0, "MaxMesh": 0, "MaxPerm": 5, "Shard": 0, "NShards": 1, "Sample": ("<-", "SampleDef")}
        sjobs.append(("MC_C18", util.cfg(init="Init", next_="Stutter", invariants=INVS + ["EmitState"], constants=k),
                      {"timeout": 3000, "files": {"MC_C18.tla": util.mc_module("MC_C18", "C18_Shading", {"SampleDef": sdef})}}))
    nsmp = len(smp)
    results = tlc.run_many(sjobs + jobs, parallel=16)
    n = 0
    for r in results:
        ctx.add_tlc(r, "mesh universe shard")
        for rec in r.records:
            n += 1
            judge_state(ctx, rec)
            if n % 401 == 0:
                ctx.sample({"machine": "C18_Shading", "p": rec["p"], "R": rec["R"], "cells": rec["cells"][:3], "addp": rec["addp"][:1]})
    if n != 1042 + nsmp:
        raise tlc.MachineryFailure("C18: %d states, expected all 1042 mesh patterns of length <= 2 and %d sampled ones of length 3" % (n, nsmp))
    ctx.exhaustive = True
    # ---- code -> spec: length-3 patterns, the code's licences and insertions judged by meaning ----
    events = []
    nlic = 0
    nchain = 0
    for p, R in sample3(rnd, 60 if quick else 600):
        M = MeshPatt(Perm(p), R)
        jp, jR = list(p), [list(c) for c in R]
        st, lics = util.call(licence_events, M, jp, jR, rnd)
        if st == "raise":
            ctx.violation({"kind": "trace-form", "p": jp, "R": jR, "op": "can_shade / can_simul_shade / shadable_boxes"}, "NoException", "lists / a dict", lics)
            continue
        events += lics
        # history: shade what was licensed and ask the new pattern (the lemma applied repeatedly)
        if lics and nchain < (12 if quick else 200) and rnd.random() < 0.4:
            nchain += 1
            first = rnd.choice(lics)["cells"]
            N = M.shade(*[tuple(c) for c in first])
            more = licence_events(N, jp, [list(c) for c in sorted(N.shading)], rnd, extra_pairs=1)
            events += more[:4]
            for c in first:                                # the cell just shaded, asked again on the new object
                if N.can_shade(tuple(c)):
                    events.append({"op": "Licence", "p": jp, "R": [list(z) for z in sorted(N.shading)], "cells": [c]})
        free = [(x, y) for x in range(4) for y in range(4) if (x, y) not in M.shading]
        for c in free[:: max(1, len(free) // 3)]:
            d = rnd.choice(list(DIRS))
            A = M.add_point(c, DIRS[d]) if d != "none" else M.add_point(c)
            events.append({"op": "AddPoint", "p": jp, "R": jR, "c": list(c), "dir": d, "resp": list(A.pattern), "resR": [list(z) for z in A.shading]})
    nlic = sum(1 for e in events if e["op"] == "Licence")
    if nlic == 0:
        raise tlc.MachineryFailure("C18: the sampled patterns produced no licence at all")
    cap = 400 if quick else 4000
    events = events[:cap]
    # licences on patterns of length 4 (border shadings, sparse shadings), meaning over permutations up to length 6
    ev4 = []
    tries = 0
    while len(ev4) < (16 if quick else 160) and tries < 400:
        tries += 1
        p = util.rand_perm(rnd, 4)
        if tries % 2:
            R = [(x, y) for x in range(5) for y in range(5) if (x in (0, 4) or y in (0, 4)) and rnd.random() < 0.35]
        else:
            R = [(x, y) for x in range(5) for y in range(5) if rnd.random() < 0.2]
        got = licence_events(MeshPatt(Perm(p), R), list(p), [list(c) for c in R], rnd, extra_pairs=1)
        rnd.shuffle(got)
        ev4 += got[:2]
    cheap = cheap_events(ctx, rnd, quick)
    cheap += util.weak_hash_finish(ctx, weak, "c18")
    cheap += long_licence_events(ctx, rnd, quick)
    # the witness check itself must have teeth: a made-up licence (the one-point pattern with its south-west cell shaded, shading the north-east cell too,
    # refuted by 01) is confirmed by the specification
    bogus = util.validate_trace(ctx, "Trace_C18", [{"op": "Refuted", "p": [0], "R": [[0, 0]], "cells": [[1, 1]], "q": [0, 1]}], constants=dict(
        {"Mode": '"trace"', "MinMesh": 0, "MaxMesh": 0, "MaxPerm": 5, "Shard": 0, "NShards": 1, "Sample": "{}"}), ntraces=0)
    if [b["clause"] for b in bogus["verdict"]] != ["LicenceChangesMeaning"]:
        raise tlc.MachineryFailure("C18: a made-up wrong licence with its witness was not confirmed by Trace_C18")
    # validated in parallel chunks (each licence costs ~150 containment tests)
    chunks = [events[i::8] for i in range(8)]
    k = {"Mode": '"trace"', "MinMesh": 0, "MaxMesh": 0, "MaxPerm": 5, "Shard": 0, "NShards": 1, "Sample": "{}"}
    k6 = dict(k, MaxPerm=6)
    work = [(ch, k) for ch in chunks] + [(ev4[i::4], k6) for i in range(4)] + [(cheap[i::2], k) for i in range(2)]
    import concurrent.futures
    with concurrent.futures.ThreadPoolExecutor(max_workers=14) as ex:
        vs = list(ex.map(lambda w: util.validate_trace(ctx, "Trace_C18", w[0], constants=w[1], ntraces=len(w[0])) if w[0] else {"verdict": []}, work))
    for (ch, _), v in zip(work, vs):
        for b in v["verdict"]:
            ev = ch[b["i"] - 1]
            ctx.violation({"kind": "trace-event", "event": ev}, b["clause"], "meaning preserved / diagram insertion / region test / rendering by definition", ev)
    ctx.note("licences_judged_on_length4", len(ev4))
    ctx.note("diagram_level_events", len(cheap))
    events = events + ev4 + cheap
    ctx.case(n=len(events))
    ctx.note("licences_judged_on_length3", nlic)
    ctx.sample({"machine": "Trace_C18", "events": events[:2]})
    ctx.rule = ("every mesh pattern of length <= 2 is a TLC state with the meaning of every possible licence, the expected "
                "insertions, region tests, anchoring, rank and rendering; the real methods are compared with them; "
                "non-trivial = the real code licenses at least one shading for the pattern; plus licences/insertions on "
                "sampled length-3 patterns judged by Trace_C18")
    ctx.assumptions.append("a licence is refuted only by a permutation within the bound (length <= 4 quick, 5 thorough / traces)")


def replay(ctx, path):
    rec = json.load(open(path))
    case = rec["case"]
    if case["kind"] == "state":
        M = "[p |-> %s, R |-> {%s}]" % (tlc.tla(case["p"]), ", ".join(tlc.tla(list(c)) for c in case["R"]))
        k = {"Mode": '"sample"', "MinMesh": 0, "MaxMesh": 0, "MaxPerm": 5, "Shard": 0, "NShards": 1, "Sample": ("<-", "SampleDef")}
        r = tlc.run_tlc("MC_C18", util.cfg(init="Init", next_="Stutter", invariants=INVS + ["EmitState"], constants=k),
                        files={"MC_C18.tla": util.mc_module("MC_C18", "C18_Shading", {"SampleDef": "{" + M + "}"})}, timeout=600)
        before = len(ctx.violations)
        for s in r.records:
            judge_state(ctx, s)
        if len(ctx.violations) > before:
            return 1
        print("replay: case passes on the current tree")
        return 0
    raise tlc.MachineryFailure("trace events are replayed by re-running the check with the same VERIF_SEED")
