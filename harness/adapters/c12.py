"""C12 - sorting operators, the Simion-Schmidt map and the named families.

spec -> code : the machine C12_Devices runs the stack / pop-stack / bubble device step by step on every
               permutation of the universe (and feeds the output in again until sorted); every finished
               pass is an obligation  X_sort(fed) == out  for the real code, the first pass fixes X_sortable,
               the number of passes fixes count_*_sorts and west_2/3_stack_sortable.  The "static" states
               carry the definitional values of quick_sort, Simion-Schmidt (both directions, domain) and
               every predicate of permuta.bisc.perm_properties; the "group" states the dihedral group.
code -> spec : calls of the real code on larger random permutations, recorded as events and judged by
               Trace_C12 (one TLC step per event).
Hardening probes (same judge, Trace_C12): permutations ending in  n 1  and their relatives at lengths 5-10 (n - 1
               passes), inputs on both sides of the West-2 / West-3 and pass-count boundaries at lengths 5-8, k passes
               chained on the objects the real code returned (PassChain), sessions in which one Perm object answers every
               question twice, Simion-Schmidt on members / neighbours / non-members of both domains at every length
               0-10 in positional and keyword form, family predicates on reported members and non-members at length
               7-8 and on lengths 0-2, dihedral_group as keyword call and as two lazy listings alive at once.
The definitions themselves are cross-checked once per run by LibSanity_Devices (known theorems as ASSUMEs).
"""
import concurrent.futures
import inspect
import json

from permuta import Perm
from permuta.bisc import perm_properties
from permuta.permutils.bijections import Bijections
from permuta.permutils.groups import dihedral_group

from harness import tlc, util

INVS = ["TypeOK", "Conservation", "InputIsSuffix", "Deterministic", "DeviceShape", "PassIsLibPass", "LargestLast",
        "IdentityFixed", "SortableIffPattern", "CountIsPasses", "NotSortedEarlier", "QuickOK", "SimionSchmidtOK",
        "FamiliesOK", "PerLengthOK"]
ACTIONS = ["Push", "Pop", "PopAll", "Swap", "Refeed"]
SORT = {"stack": "stack_sort", "pop": "pop_stack_sort", "bubble": "bubble_sort", "quick": "quick_sort"}
SORTABLE = {"stack": "stack_sortable", "pop": "pop_stack_sortable", "bubble": "bubble_sortable", "quick": "quick_sortable"}
COUNT = {"stack": "count_stack_sorts", "pop": "count_pop_stack_sorts"}
WEST = {2: "west_2_stack_sortable", 3: "west_3_stack_sortable"}
FAMILIES = ["smooth", "forest_like", "baxter", "simsun", "dihedral", "in_alternating_group",
            "yt_perm_avoids_22", "yt_perm_avoids_32", "av_231_and_mesh", "hard_mesh"]
KNOWN_SITE = "perm_properties.in_alternating_group at length 2"
KNOWN_DEV = "Alternating_N2Excluded"


class Unrecordable(Exception):
    """The real code raised or returned a value of the wrong kind: judged directly, not by TLC."""

    def __init__(self, what):
        super().__init__(what)
        self.what = what


# ---- recorders: perform one public call of the real code and describe it as a trace event -------------
def _perm_result(x):
    if not isinstance(x, Perm):
        raise Unrecordable("returned %s, not a Perm" % type(x).__name__)
    return list(x)


def _guard(f):
    try:
        return f()
    except (Unrecordable, FormUnavailable):
        raise
    except Exception as e:  # pylint: disable=broad-except
        raise Unrecordable("raised " + type(e).__name__) from e


def _typed(x, typ):
    if type(x) is not typ:  # pylint: disable=unidiomatic-typecheck
        raise Unrecordable("returned %r, not a %s" % (x, typ.__name__))
    return x


class FormUnavailable(Exception):
    """A keyword form of a public function does not exist on this tree: reported as drift, never judged."""


def _bound(f, **kw):
    try:
        inspect.signature(f).bind(**kw)
    except TypeError as e:
        raise FormUnavailable("%s: %s" % (getattr(f, "__name__", f), e)) from e
    return f(**kw)


# objects of a session: an event with a key "obj" is performed on ONE Perm object per key, kept between events; an event
# with a key "keep" stores the Perm the real code returned under that key, so that a later event is performed on the very
# object an earlier call produced
_HELD = {}


def subject(ev):
    key = ev.get("obj")
    if key is None:
        return Perm(ev["p"])
    o = _HELD.get(key)
    if o is None or list(o) != list(ev["p"]):
        o = _HELD[key] = Perm(ev["p"])
    return o


def _kept(ev, x):
    if ev.get("keep") and isinstance(x, Perm):
        _HELD[ev["keep"]] = x
    return x


def _ss_call(ev):
    p = subject(ev)
    form = ev.get("form", "")
    if form == "kw":
        return _bound(Bijections.simion_and_schmidt, perm=p, inverse=bool(ev["inv"]))
    if form == "pos":
        return Bijections.simion_and_schmidt(p, bool(ev["inv"]))
    return Bijections.simion_and_schmidt(p, inverse=True) if ev["inv"] else Bijections.simion_and_schmidt(p)


def _group_call(ev):
    n, form = ev["n"], ev.get("form", "")
    if form == "kw":
        return list(_bound(dihedral_group, n=n))
    if form == "in_turn":           # two lazy listings alive at once, advanced in turn; the second one is reported
        g1, g2 = dihedral_group(n), dihedral_group(n)
        o1, o2, live = [], [], [True, True]
        while any(live):
            for j, (g, o) in enumerate(((g1, o1), (g2, o2))):
                if live[j]:
                    x = next(g, None)
                    if x is None:
                        live[j] = False
                    else:
                        o.append(x)
                        if n >= 3:
                            perm_properties.dihedral(x)          # the predicate walks a third listing meanwhile
        return o2 if ev.get("which", 2) == 2 else o1
    return list(dihedral_group(n))


def record(ev):
    """ev: {op, arguments}; returns the event completed with what the real code did."""
    op = ev["op"]
    ev = dict(ev)
    if op == "Pass":
        ev["res"] = _guard(lambda: _perm_result(_kept(ev, getattr(subject(ev), SORT[ev["dev"]])())))
    elif op == "PassChain":
        def chain():
            x = subject(ev)
            for _ in range(ev["k"]):
                x = getattr(x, SORT[ev["dev"]])()
                if not isinstance(x, Perm):
                    break
            return _perm_result(_kept(ev, x))
        ev["res"] = _guard(chain)
    elif op == "Sortable":
        ev["res"] = _typed(_guard(lambda: getattr(subject(ev), SORTABLE[ev["dev"]])()), bool)
    elif op == "West":
        ev["res"] = _typed(_guard(lambda: getattr(subject(ev), WEST[ev["k"]])()), bool)
    elif op == "Count":
        ev["res"] = _typed(_guard(lambda: getattr(subject(ev), COUNT[ev["dev"]])()), int)
    elif op == "SS":
        try:
            got = _ss_call(ev)
            ev.update(raised=False, exc="", res=_perm_result(_kept(ev, got)))
        except (Unrecordable, FormUnavailable):
            raise
        except Exception as e:  # pylint: disable=broad-except
            ev.update(raised=True, exc=type(e).__name__, res=[])
    elif op == "Family":
        ev["res"] = _typed(_guard(lambda: getattr(perm_properties, ev["name"])(subject(ev))), bool)
    elif op == "Group":
        ev["res"] = _guard(lambda: [_perm_result(x) for x in _group_call(ev)])
    else:
        raise tlc.MachineryFailure("unknown event " + op)
    return ev


def observe(ctx, ev, clause):
    """record(), turning an exception / ill-typed value of the real code into a violation."""
    try:
        return record(ev)
    except FormUnavailable as e:
        ctx.drift("keyword form not available, not judged: %s" % e)
        return None
    except Unrecordable as u:
        ctx.violation({"kind": "event", "event": ev}, clause, "a value of the documented kind", u.what)
        return None


def expect(ctx, ev, clause, want, field="res"):
    got = observe(ctx, ev, clause)
    if got is None:
        return None
    if got[field] != want:
        ctx.violation({"kind": "event", "event": ev}, clause, want, got[field])
    return got


# ---- spec -> code ------------------------------------------------------------------------------------
def judge_passes(ctx, dev, p, recs):
    """recs: the pass records of one (device, input), by pass number."""
    recs = sorted(recs, key=lambda r: r["k"])
    if [r["k"] for r in recs] != list(range(1, len(recs) + 1)) or recs[0]["fed"] != p:
        raise tlc.MachineryFailure("C12: passes of %s %s not contiguous" % (dev, p))
    ident = list(range(len(p)))
    ctx.case((dev, tuple(p)), nontrivial=len(p) >= 3 and p != ident)
    for r in recs:                                  # one obligation per finished pass of the machine
        expect(ctx, {"op": "Pass", "dev": dev, "p": r["fed"]}, "PassOutput", r["out"])
    expect(ctx, {"op": "Sortable", "dev": dev, "p": p}, "SortableIffIdentity", recs[0]["sorted"])
    if dev in COUNT:
        last = recs[-1]
        if not last["sorted"] or any(r["sorted"] for r in recs[:-1]):
            raise tlc.MachineryFailure("C12: run of %s on %s does not end sorted" % (dev, p))
        expect(ctx, {"op": "Count", "dev": dev, "p": p}, "CountIsPasses", last["count"])
        if dev == "stack":
            for k in (2, 3):
                expect(ctx, {"op": "West", "k": k, "p": p}, "WestKPasses", last["count"] <= k)
    elif len(recs) != 1:
        raise tlc.MachineryFailure("C12: bubble refed")


def judge_static(ctx, rec, known):
    p = rec["p"]
    ident = list(range(len(p)))
    ctx.case(("static", tuple(p)), nontrivial=len(p) >= 3 and p != ident)
    expect(ctx, {"op": "Pass", "dev": "quick", "p": p}, "PassOutput", rec["quick"])
    expect(ctx, {"op": "Sortable", "dev": "quick", "p": p}, "SortableIffIdentity", rec["quick_sortable"])
    # Simion-Schmidt, both directions
    for inv, dom, img in ((False, rec["ss_dom"], rec["ss"]), (True, rec["ssi_dom"], rec["ssi"])):
        ev = {"op": "SS", "inv": inv, "p": p}
        got = observe(ctx, ev, "SimionSchmidtImage")
        if got is None:
            continue
        case = {"kind": "event", "event": ev}
        ctx.case(("ss", inv, tuple(p)), nontrivial=dom and len(p) >= 3)
        if not dom:
            if not got["raised"] or got["exc"] != "ValueError":
                ctx.violation(case, "DomainRejected", "ValueError", got["exc"] or got["res"])
            continue
        if got["raised"]:
            ctx.violation(case, "NoExceptionInDomain", img, got["exc"])
            continue
        if got["res"] != img:
            ctx.violation(case, "SimionSchmidtImage", img, got["res"])
            continue
        # left-to-right minima (positions and values) are fixed, and the other direction undoes it
        q = got["res"]
        mins = [i for i in range(len(q)) if all(q[j] > q[i] for j in range(i))]
        if mins != sorted(rec["ltrmin"]) or any(q[i] != p[i] for i in mins):
            ctx.violation(case, "LtrMinimaFixed", sorted(rec["ltrmin"]), mins)
        back = observe(ctx, {"op": "SS", "inv": not inv, "p": q}, "InverseUndoes")
        if back is not None and (back["raised"] or back["res"] != p):
            ctx.violation({"kind": "event", "event": {"op": "SS", "inv": not inv, "p": q}}, "InverseUndoes", p,
                          back["exc"] or back["res"])
    # families
    for name in FAMILIES:
        ideal = rec["fam"][name]
        ev = {"op": "Family", "name": name, "p": p}
        got = observe(ctx, ev, "FamilyMembership")
        ctx.case(("fam", name, tuple(p)), nontrivial=len(p) >= 3)
        if got is None or got["res"] == ideal:
            continue
        if name == "in_alternating_group" and len(p) == 2 and got["res"] == rec["alt_dev"] and known is not None:
            ctx.known_finding(known, {"perm": p, "returned": got["res"], "definition": ideal})
            continue
        ctx.violation({"kind": "event", "event": ev}, "FamilyMembership", ideal, got["res"])


def judge_group(ctx, rec):
    n = rec["n"]
    ctx.case(("group", n), nontrivial=n >= 3)
    got = observe(ctx, {"op": "Group", "n": n}, "DihedralGroupExact")
    # the property fixes the members, not their order
    if got is not None and {tuple(x) for x in got["res"]} != {tuple(x) for x in rec["dihedral"]}:
        ctx.violation({"kind": "event", "event": {"op": "Group", "n": n}}, "DihedralGroupExact", rec["dihedral"], got["res"])


def judge_bijection(ctx, n, statics):
    """Per length: the real map sends the 123-avoiders one-to-one onto the 132-avoiders."""
    dom = [r["p"] for r in statics if len(r["p"]) == n and r["ss_dom"]]
    cod = {tuple(r["p"]) for r in statics if len(r["p"]) == n and r["ssi_dom"]}
    st, img = util.call(lambda: [tuple(Bijections.simion_and_schmidt(Perm(p))) for p in dom])
    ctx.case(("bijection", n), nontrivial=n >= 3)
    case = {"kind": "bijection", "n": n}
    if st == "raise":
        ctx.violation(case, "NoExceptionInDomain", "images of all 123-avoiders", img)
    elif len(set(img)) != len(img) or set(img) != cod:
        ctx.violation(case, "BijectionPerLength", "a bijection onto the %d 132-avoiders" % len(cod),
                      {"distinct_images": len(set(img)), "outside": sorted(set(img) - cod)[:3], "missed": sorted(cod - set(img))[:3]})


# ---- code -> spec ------------------------------------------------------------------------------------
def lis_at_most_2(p):
    return not any(p[i] < p[j] < p[k] for i in range(len(p)) for j in range(i + 1, len(p)) for k in range(j + 1, len(p)))


def no_132(p):
    return not any(p[i] < p[k] < p[j] for i in range(len(p)) for j in range(i + 1, len(p)) for k in range(j + 1, len(p)))


def sample_where(rnd, n, pred, tries=4000):
    for _ in range(tries):
        p = util.rand_perm(rnd, n)
        if pred(p):
            return p
    return None


def structured(rnd, n):
    """Permutations near the boundaries of the families: rotations, reversals, a few transpositions away."""
    k = rnd.randrange(n)
    base = rnd.choice([list(range(n)), list(range(n - 1, -1, -1)), [(i + k) % n for i in range(n)],
                       [(k - i) % n for i in range(n)], list(range(1, n)) + [0], [n - 1] + list(range(n - 1))])
    for _ in range(rnd.choice([0, 0, 1, 2])):
        i, j = rnd.randrange(n), rnd.randrange(n)
        base[i], base[j] = base[j], base[i]
    return tuple(base)


def driver_events(ctx, rnd, nperm, lengths):
    events = []

    def add(ev, clause="NoException"):
        got = observe(ctx, ev, clause)
        if got is not None:
            events.append(got)

    for t in range(nperm):
        n = rnd.choice(lengths)
        p = list(structured(rnd, min(n, 8)) if t % 4 == 0 else util.rand_perm(rnd, n))
        for dev in ("stack", "pop", "bubble", "quick"):
            add({"op": "Pass", "dev": dev, "p": p})
            add({"op": "Sortable", "dev": dev, "p": p})
        for dev in ("stack", "pop"):
            add({"op": "Count", "dev": dev, "p": p})
        for k in (2, 3):
            add({"op": "West", "k": k, "p": p})
        for name in FAMILIES:
            if name == "in_alternating_group" and len(p) == 2:
                continue
            add({"op": "Family", "name": name, "p": p})
        add({"op": "SS", "inv": bool(t % 2), "p": p})
        # members of the two domains (found by rejection, not by the code under test)
        m = rnd.choice([x for x in lengths if x <= 10])
        a = sample_where(rnd, m, lis_at_most_2)
        if a is not None:
            add({"op": "SS", "inv": False, "p": list(a)})
        b = sample_where(rnd, m, no_132)
        if b is not None:
            add({"op": "SS", "inv": True, "p": list(b)})
        # sortable inputs are rare among random permutations: also feed outputs of a pass back in
        if events and t % 3 == 0:
            outs = [e for e in events if e["op"] == "Pass" and e["dev"] == "stack"]
            if not outs:
                continue
            q = outs[-1]["res"]
            add({"op": "Sortable", "dev": "stack", "p": q})
            add({"op": "West", "k": 2, "p": q})
            add({"op": "Count", "dev": "stack", "p": q})
    for n in range(0, 11):
        add({"op": "Group", "n": n})
    return events


# ---- hardening probes: structured inputs, pass-count boundaries, sessions on one object, argument forms, lazy listings ----
# (input selection only; every event is judged by Trace_C12)
def random_132_avoider(rnd, n, lo=0):
    """L max R with every entry of L above every entry of R, both parts built the same way (the classical decomposition)."""
    if n == 0:
        return []
    k = rnd.randrange(n)                         # length of L
    right = random_132_avoider(rnd, n - 1 - k, lo)
    left = random_132_avoider(rnd, k, lo + n - 1 - k)
    return left + [lo + n - 1] + right


def hard_events(ctx, rnd, quick):
    events = []

    def add(ev, clause="NoException"):
        got = observe(ctx, ev, clause)
        if got is not None:
            events.append(got)
        return got

    def devices(p, west=True):
        for dev in ("stack", "pop", "bubble", "quick"):
            add({"op": "Pass", "dev": dev, "p": p})
            add({"op": "Sortable", "dev": dev, "p": p})
        for dev in ("stack", "pop"):
            add({"op": "Count", "dev": dev, "p": p})
        if west:
            for k in (2, 3):
                add({"op": "West", "k": k, "p": p})

    # 1. families with a known number of passes: 2 3 .. n 1 and other permutations ending in  n 1  (n - 1 stack passes),
    #    n 1 2 .. n-1, reversals, rotations; lengths 5..10
    for n in range(5, 11):
        fam = [list(range(1, n)) + [0], [n - 1] + list(range(n - 1)), list(range(n - 1, -1, -1)), list(range(n)),
               list(range(1, n - 1)) + [n - 1, 0], list(range(n - 2, 0, -1)) + [n - 1, 0]]
        for _ in range(2 if quick else 6):
            mid = list(range(1, n - 1))
            rnd.shuffle(mid)
            fam.append(mid + [n - 1, 0])                      # ... n 1
            fam.append([n - 1, 0] + mid)                      # n 1 ...
        for p in fam:
            devices(p)
            add({"op": "PassChain", "dev": "stack", "p": p, "k": n - 2})
            add({"op": "PassChain", "dev": "stack", "p": p, "k": n - 1})
    # 2. boundaries of West-2 / West-3 and of the counts at lengths 5..8: buckets by the number of passes the code reports
    #    (selection only: a wrong report only changes which inputs are asked)
    for n in (5, 6, 7, 8):
        buckets = {}
        for _ in range(400 if quick else 3000):
            q = util.rand_perm(rnd, n)
            st, c = util.call(Perm(q).count_stack_sorts)
            if st == "ok" and isinstance(c, int) and len(buckets.setdefault(("s", c), [])) < (3 if quick else 12):
                buckets[("s", c)].append(q)
            st, c = util.call(Perm(q).count_pop_stack_sorts)
            if st == "ok" and isinstance(c, int) and len(buckets.setdefault(("p", c), [])) < (2 if quick else 8):
                buckets[("p", c)].append(q)
        for (kind, c), qs in sorted(buckets.items()):
            for q in qs:
                p = list(q)
                if kind == "s":
                    add({"op": "Count", "dev": "stack", "p": p})
                    for k in (2, 3):
                        add({"op": "West", "k": k, "p": p})
                    add({"op": "PassChain", "dev": "stack", "p": p, "k": max(c - 1, 0)})
                    add({"op": "PassChain", "dev": "stack", "p": p, "k": c})
                else:
                    add({"op": "Count", "dev": "pop", "p": p})
                    add({"op": "PassChain", "dev": "pop", "p": p, "k": max(c - 1, 0)})
                    add({"op": "PassChain", "dev": "pop", "p": p, "k": c})
    # 3. one object asked repeatedly, and operators applied to the very objects earlier calls returned
    for sidx in range(6 if quick else 40):
        n = rnd.choice([6, 7, 8, 9])
        p = list(util.rand_perm(rnd, n)) if sidx % 2 else list(range(1, n - 1)) + [n - 1, 0]
        key = "c12s%d" % sidx
        asks = []
        for dev in ("stack", "pop", "bubble", "quick"):
            asks += [{"op": "Pass", "dev": dev, "p": p, "obj": key, "keep": "%s-%s" % (key, dev)}, {"op": "Sortable", "dev": dev, "p": p, "obj": key}]
        asks += [{"op": "Count", "dev": "stack", "p": p, "obj": key}, {"op": "Count", "dev": "pop", "p": p, "obj": key},
                 {"op": "West", "k": 2, "p": p, "obj": key}, {"op": "West", "k": 3, "p": p, "obj": key},
                 {"op": "SS", "inv": False, "p": p, "obj": key}, {"op": "SS", "inv": True, "p": p, "obj": key, "form": "kw"}]
        if n <= 8:
            asks += [{"op": "Family", "name": nm, "p": p, "obj": key} for nm in rnd.sample(FAMILIES, 4)]
        order = asks + asks
        rnd.shuffle(order)
        outs = {}
        for ev in order:
            got = add(ev)
            if got is not None and "keep" in ev:
                outs[ev["dev"]] = got["res"]
        for dev, q in sorted(outs.items()):          # the returned objects themselves as inputs
            kept = "%s-%s" % (key, dev)
            add({"op": "Pass", "dev": dev, "p": q, "obj": kept})
            add({"op": "Sortable", "dev": dev, "p": q, "obj": kept})
            if dev in COUNT:
                add({"op": "Count", "dev": dev, "p": q, "obj": kept})
            add({"op": "Pass", "dev": "stack", "p": q, "obj": kept})
    # 4. Simion-Schmidt: members of both domains at length 8-10 in both directions on the objects returned, near-members
    #    and non-members at every length
    for n in range(0, 11):
        members = []
        for _ in range(3 if quick else 12):
            b = random_132_avoider(rnd, n)
            members.append((True, b))
            if n <= 9:
                a = sample_where(rnd, n, lis_at_most_2, tries=1500)
                if a is not None:
                    members.append((False, list(a)))
        members.append((True, list(range(n - 1, -1, -1))))
        members.append((False, list(range(n - 1, -1, -1))))
        members.append((True, list(range(n))))                 # the identity avoids 132
        for j, (inv, p) in enumerate(members):
            key = "ss%d-%d" % (n, j)
            got = add({"op": "SS", "inv": inv, "p": p, "form": ("", "kw", "pos")[j % 3], "keep": key})
            if got is not None and not got["raised"]:
                add({"op": "SS", "inv": not inv, "p": got["res"], "obj": key})          # back, on the returned object
                add({"op": "SS", "inv": inv, "p": got["res"], "obj": key})              # and the same direction again (mostly outside)
            if n >= 3:
                q = list(p)                                        # one adjacent transposition away: mostly outside the domain
                i = rnd.randrange(n - 1)
                q[i], q[i + 1] = q[i + 1], q[i]
                add({"op": "SS", "inv": inv, "p": q, "form": ("kw", "", "pos")[j % 3]})
        for _ in range(2 if quick else 10):                        # arbitrary permutations: outside both domains from length 5 on
            q = list(util.rand_perm(rnd, n))
            add({"op": "SS", "inv": False, "p": q})
            add({"op": "SS", "inv": True, "p": q, "form": "pos"})
    # 5. family predicates at length 7-8: members and non-members as the code reports them (selection only), plus
    #    constructed members of the thin families and their neighbours
    for n in (7, 8):
        pool = [list(util.rand_perm(rnd, n)) for _ in range(150 if quick else 1200)]
        pool += [random_132_avoider(rnd, n) for _ in range(20)]
        for name in FAMILIES:
            f = getattr(perm_properties, name, None)
            if f is None:
                continue
            want = {True: 3 if quick else 10, False: 2 if quick else 6}
            for q in pool:
                st, v = util.call(f, Perm(q))
                if st == "ok" and isinstance(v, bool) and want[v] > 0:
                    want[v] -= 1
                    add({"op": "Family", "name": name, "p": q})
                if not any(want.values()):
                    break
        for k in range(0, n, 3):
            rot = [(i + k) % n for i in range(n)]
            refl = [(k - i) % n for i in range(n)]
            for q in (rot, refl, rot[:2][::-1] + rot[2:], refl[:-2] + refl[-2:][::-1]):
                for name in ("dihedral", "in_alternating_group", "simsun", "baxter"):
                    add({"op": "Family", "name": name, "p": q})
    for n in (0, 1, 2):
        for q in util.perms_of(n):
            for name in FAMILIES:
                if name == "in_alternating_group" and n == 2:
                    continue                                    # known finding, judged in the exhaustive part
                add({"op": "Family", "name": name, "p": list(q), "obj": "tiny%d" % n})
    # 5b. questions abandoned half way (KeyboardInterrupt inside the library) on lengths nothing has asked about yet, then
    #     asked properly: members and non-members of each family, device outputs
    nint = 0
    for n in range(11, 17 if quick else 30):
        rot = [(i + 3) % n for i in range(n)]
        refl = [(5 - i) % n for i in range(n)]
        other = rot[:2][::-1] + rot[2:]
        for q in (rot, refl, other):
            for name in ("dihedral", "in_alternating_group", "smooth", "forest_like"):
                f = getattr(perm_properties, name, None)
                if f is None:
                    continue
                st, _ = util.interrupted_call(lambda: f(Perm(q)), rnd.choice([1, 2, 3, 4, 5, 6, 8, 10, 13, 17, 25, 40]), suffixes=("permuta/",))
                nint += st == "interrupted"
            for name in ("dihedral", "in_alternating_group"):
                add({"op": "Family", "name": name, "p": q})
        P = Perm(other)
        st, _ = util.interrupted_call(lambda: (P.stack_sort(), P.bubble_sort(), P.quick_sort(), P.pop_stack_sort()), rnd.randint(1, 80), suffixes=("permuta/",))
        nint += st == "interrupted"
        for dev in ("stack", "pop", "bubble", "quick"):
            add({"op": "Pass", "dev": dev, "p": other})
    ctx.note("questions_abandoned_half_way", nint)
    # 5c. permutations of 1100 entries with long monotone stretches: one pass of every device (the device of Trace_C12 is run
    #     on them step by step); quick sort is only required to return a permutation there (its definition is cubic for TLC)
    n = 1100 if quick else 1500
    inc, dec = list(range(n)), list(range(n - 1, -1, -1))
    longs = [inc, dec, inc[1:] + [0], [n - 1] + inc[:-1], inc[: n // 2] + dec[: n - n // 2]]
    for q in longs[: (3 if quick else 5)]:
        for dev in ("stack", "bubble", "pop"):
            add({"op": "Pass", "dev": dev, "p": q})
        st, got = util.call(Perm(q).quick_sort)
        if st == "raise" or sorted(got) != inc:
            ctx.violation({"kind": "long permutation", "n": n, "first": q[:3], "dev": "quick"}, "NoException", "a permutation of the same length", got if st == "raise" else "not a permutation")
    for q in longs[:2]:
        for dev in ("stack", "bubble"):
            add({"op": "Sortable", "dev": dev, "p": q})
    # 5d. long inputs outside the domain of the Simion-Schmidt map: every arrangement of four entries holding the forbidden
    #     pattern, put in front of / behind / on top of / below a long member of the domain (the occurrence sits in the first
    #     or last four entries: TLC finds it at once)
    import itertools
    m = n - 4
    for inv in (True, False):
        patt = (0, 2, 1) if inv else (0, 1, 2)
        four = [f for f in itertools.permutations(range(4)) if Perm(f).contains(Perm(patt))]
        member = list(range(m - 1, -1, -1))                          # a decreasing run avoids both 132 and 123
        for f in four:
            for place in range(2):                                   # (only in front: TLC and the library meet the occurrence at once)
                if place == 0:                                       # in front, above
                    q = [v + m for v in f] + member
                elif place == 1:                                     # in front, below
                    q = list(f) + [v + 4 for v in member]
                elif place == 2:                                     # behind, above
                    q = member + [v + m for v in f]
                else:                                                # behind, below
                    q = [v + 4 for v in member] + list(f)
                st, got = util.call(Bijections.simion_and_schmidt, Perm(q), inv)
                events.append({"op": "SSLong", "inv": inv, "p": q, "raised": st == "raise", "exc": got if st == "raise" else ""})
    # 6. dihedral_group: keyword form, asked twice, two lazy listings alive at once
    for n in range(0, 11):
        add({"op": "Group", "n": n, "form": "kw"})
        add({"op": "Group", "n": n, "form": "in_turn", "which": 1 + n % 2})
        add({"op": "Group", "n": n})
    return events


def validate_chunks(ctx, events, nchunks):
    """Trace validation in several JVMs side by side (same acceptance test as util.validate_trace, which is used for each chunk)."""
    chunks = [events[k::nchunks] for k in range(nchunks)]
    first = util.validate_trace(ctx, "Trace_C12", chunks[0], ntraces=len(chunks[0]), timeout=3000)     # also demonstrates the binding
    with concurrent.futures.ThreadPoolExecutor(max_workers=nchunks) as ex:
        rest = list(ex.map(lambda ch: util.validate_trace(ctx, "Trace_C12", ch, ntraces=len(ch), timeout=3000), chunks[1:]))
    verdict = []
    for k, v in enumerate([first] + rest):
        for b in v["verdict"]:
            verdict.append({"i": (b["i"] - 1) * nchunks + k + 1, "clause": b["clause"]})
    return {"verdict": verdict, "n": len(events)}


def trace_verdicts(ctx, events, v, known):
    for b in v["verdict"]:
        ev = events[b["i"] - 1]
        if b["clause"] == "Known:" + KNOWN_DEV and known is not None:
            ctx.known_finding(known, {"perm": ev["p"], "returned": ev["res"]})
            continue
        clause = "FamilyMembership" if b["clause"].startswith("Known:") else b["clause"]
        args = {k: x for k, x in ev.items() if k not in ("res", "raised", "exc")}
        ctx.violation({"kind": "event", "event": args}, clause, "value of the definition in module Devices (see clause)",
                      {k: ev[k] for k in ("res", "raised", "exc") if k in ev})


def run(ctx):
    quick = ctx.tier == "quick"
    maxperm = 6 if quick else 7
    nsh = 16
    known = ctx.known_entry(KNOWN_SITE, KNOWN_DEV)
    # ---- 0/1. sanity of the definitions + the device machine on the whole universe, side by side ------
    jobs = [("LibSanity_Devices", util.cfg(init="Init", next_="Next"), {"timeout": 1500})]
    for s in range(nsh):
        c = util.cfg(init="Init", next_="Next", invariants=INVS + ["EmitState"],
                     constants={"MinPerm": 0, "MaxPerm": maxperm, "Shard": s, "NShards": nsh, "WithGroups": s == 0})
        jobs.append(("C12_Devices", c, {"timeout": 3000, "coverage": True}))
    results = tlc.run_many(jobs, parallel=17)
    ctx.add_tlc(results[0], "LibSanity_Devices: known theorems as ASSUMEs over lengths <= 6")
    passes, statics, groups = {}, [], []
    for r in results[1:]:
        ctx.add_tlc(r, "device machine shard")
        for rec in r.records:
            if rec["kind"] == "pass":
                passes.setdefault((rec["dev"], tuple(rec["p"])), []).append(rec)
            elif rec["kind"] == "static":
                statics.append(rec)
            else:
                groups.append(rec)
    # vacuity guards
    missing = [a for a in ACTIONS if ctx.coverage_actions.get(a, (0, 0))[0] == 0]
    nperms = sum(len(util.perms_of(n)) for n in range(maxperm + 1))
    if missing or len(statics) != nperms or len(passes) != 3 * nperms or len(groups) != maxperm + 1:
        raise tlc.MachineryFailure("C12: vacuous run (actions never taken: %s; %d static, %d device runs, %d groups for %d perms)" % (
            missing, len(statics), len(passes), len(groups), nperms))
    for i, ((dev, p), recs) in enumerate(sorted(passes.items())):
        judge_passes(ctx, dev, list(p), recs)
        if i % 997 == 500:
            ctx.sample({"machine": "C12_Devices", "device run": sorted(recs, key=lambda r: r["k"])})
    for i, rec in enumerate(statics):
        judge_static(ctx, rec, known)
        if i == len(statics) // 2:
            ctx.sample({"machine": "C12_Devices", "state": rec})
    for rec in groups:
        judge_group(ctx, rec)
        judge_bijection(ctx, rec["n"], statics)
    ctx.exhaustive = True
    ctx.note("tlc_range", "all permutations of length <= %d x {stack, pop-stack, bubble} run step by step (%d finished passes), "
             "definitional values for every permutation, per-length values for n <= %d" % (
                 maxperm, sum(len(v) for v in passes.values()), maxperm))
    ctx.note("device_steps", {a: ctx.coverage_actions.get(a, (0, 0))[0] for a in ACTIONS})
    extra = [n for n, f in inspect.getmembers(perm_properties, inspect.isfunction)
             if f.__module__ == perm_properties.__name__ and not n.startswith("_") and n not in FAMILIES]
    if extra:
        ctx.note("predicates_without_definition_in_spec", extra)

    # ---- 2. code -> spec ---------------------------------------------------------------------------------
    rnd = util.rng(ctx, 12)
    events = driver_events(ctx, rnd, 40 if quick else 400, [7, 8, 9, 10] if quick else [8, 9, 10, 11])
    hard = hard_events(ctx, util.rng(ctx, 1212), quick)
    ctx.note("hardening_events", len(hard))
    events = events + hard
    v = validate_chunks(ctx, events, 4 if quick else 12)
    ctx.case(n=len(events))
    ctx.sample({"machine": "Trace_C12", "events": [events[0], [e for e in events if e["op"] == "SS"][1]]})
    trace_verdicts(ctx, events, v, known)
    ctx.rule = ("TLC runs every device on every permutation of the universe one Push/Pop/PopAll/Swap step at a time and "
                "emits each finished pass (input fed, output, sorted, passes so far); each pass, the sortable predicate, "
                "the pass counts and west-2/3 are compared with the real operators; per permutation the definitional "
                "quicksort pass, Simion-Schmidt images/domains and ten family predicates are compared with the real "
                "functions; non-trivial = length >= 3 and not the identity (Simion-Schmidt: inside the domain); plus "
                "recorded calls on permutations of length 7-11 validated by Trace_C12")


def replay(ctx, path):
    rec = json.load(open(path))
    case = rec["case"]
    if case.get("kind") == "bijection":
        raise tlc.MachineryFailure("per-length bijection cases are replayed by re-running the check")
    try:
        ev = record(case["event"])
    except Unrecordable as u:
        print("VIOLATION property=C12 replay=%s" % path)
        print("  still failing: %s %s" % (case["event"], u.what))
        return 1
    v = util.validate_trace(ctx, "Trace_C12", [ev])
    bad = [b for b in v["verdict"] if not (b["clause"].startswith("Known:") and ctx.known_entry(KNOWN_SITE, KNOWN_DEV))]
    if bad:
        print("VIOLATION property=C12 replay=%s" % path)
        print("  still failing: %s on %s" % (bad, ev))
        return 1
    print("replay: case passes on the current tree")
    return 0
