"""C11 - every permutation statistic returns the value its definition and name promise.

spec -> code : (a) every state of C11_Stats (all permutations of length <= 6 / 7, the record of every
               statistic and listing by definition) replayed through every count_* / *_list / *_set /
               generator method of Perm and through PermutationStatistic.get_by_index(i).func BY NAME;
               (b) every state of C11_Tools (classes and bijections given as data: distributions,
               equally / jointly (transformed) equally distributed, preserved / transformed) replayed
               through distribution_for_length / distribution_up_to / preserved_in / equally_distributed /
               check_all_preservations / check_all_transformed / jointly_*.
code -> spec : larger random permutations (all methods), permuta.misc.math.is_prime on a few thousand
               integers, preservation on random bijections between longer permutations and distributions
               over class levels of length 6, validated by Trace_C11.

Hardening probes: Trace_C11b judges one cheap statistic / listing / table entry per event on permutations of length
               7-10 - every cheap statistic on structured inputs (monotone, layered, simple, involutions, extreme
               entries at the ends), a sample on random ones, each object asked twice; the tools are asked again on
               the same statistic object after other classes and levels, with keyword arguments, after the class was
               enumerated further and after Av.clear_cache(), with two lazy answers alive at once, on an equal
               dictionary filled in the opposite order, and on degenerate bijections (empty, empty -> empty).

Known findings (accepted only with the matching entry of known_findings.json, else a VIOLATION):
  Stat14_15_LongestRun, Layers_UnstandardisedSeed, ForeAfter_StepTwoAscent (named deviation operators
  StDev_* of specs/lib/Stats.tla).
"""
import concurrent.futures
import inspect
import json
import os
import tempfile

from permuta import Av, Basis, Perm
from permuta.misc import math as pmath
from permuta.permutils.statistics import PermutationStatistic as PS

from harness import tlc, util

NAMES = ["Number of inversions", "Number of non-inversions", "Major index", "Number of descents",
         "Number of ascents", "Number of peaks", "Number of valleys", "Number of cycles",
         "Number of left-to-right minimas", "Number of left-to-right maximas",
         "Number of right-to-left minimas", "Number of right-to-left maximas",
         "Number of fixed points", "Order", "Longest increasing subsequence",
         "Longest decreasing subsequence", "Depth", "Number of bounces", "Maximum drop size",
         "Number of primes in the column sums", "Holeyness of a permutation",
         "Number of stack-sorts needed", "Number of pop-stack-sorts needed", "Number of pinnacles",
         "Number of cyclic peaks", "Number of cyclic valleys", "Number of double excedance",
         "Number of double drops", "Number of foremaxima", "Number of afterminima",
         "Number of aftermaxima", "Number of foreminima"]
DEVIATING = [15, 16, 29, 30, 31, 32]                 # 1-based positions in NAMES (StDeviatingIndices)
KF_SITE = {
    "Stat14_15_LongestRun": "PermutationStatistic index 14/15 (Longest increasing/decreasing subsequence)",
    "Layers_UnstandardisedSeed": "Perm.rtlmax_ltrmin_decomposition / count_rtlmax_ltrmin_layers",
    "ForeAfter_StepTwoAscent": "Perm.foremaxima / afterminima / aftermaxima / foreminima (count_* and PermutationStatistic index 28-31)",
}
DEV_OF_FIELD = {"fmax": "ForeAfter_StepTwoAscent", "amin": "ForeAfter_StepTwoAscent", "amax": "ForeAfter_StepTwoAscent",
                "fmin": "ForeAfter_StepTwoAscent", "layers": "Layers_UnstandardisedSeed"}
ORACLE = {"transcribed": ["bounces (St000133)", "holeyness (St001469)", "column-sum primes (St001285)", "maximum drop (St000141)"],
          "paper, boundary convention chosen (0-oo / oo-0), cross-checked by (des,fmax) ~ (exc,fix)":
              ["foremaxima", "afterminima", "aftermaxima", "foreminima"],
          "device definition, cross-checked with West's recursion / Knuth / Avis-Newborn": ["stack-sorts needed", "pop-stack-sorts needed"],
          "textbook": "all others"}
STATS_INVS = ["TypeOK", "CountsAreCardinalities", "Identities", "DeviationShape"]
TOOLS_INVS = ["DistributionSums", "JointImpliesMarginal", "TransformedSwap", "PreservedIsSelfTransformed", "SymmetryFacts"]
# bases of the classes handed to the tools as data; () = all permutations (perm_class=None)
CLASSES = [(), ((0, 1, 2),), ((0, 2, 1),), ((1, 0, 2),), ((1, 2, 0),), ((2, 0, 1),), ((2, 1, 0),),
           ((1, 0, 3, 2), (3, 0, 4, 1, 5, 2)), ((2, 0, 3, 1),), ((0, 1, 2), (2, 1, 0)), ((1, 2, 0), (2, 0, 1)),
           ((0, 1, 2, 3),), ((0,),)]
PAIRS = [(2, 3), (2, 7), (3, 4), (3, 6), (8, 9), (12, 8), (10, 11), (5, 6), (4, 4), (13, 10)]    # 1-based into CLASSES
SUB = [1, 4, 5, 8, 9, 13, 15]       # sub-table for jointly_transformed (1-based), includes a deviating entry
FULL_N = 3                          # jointly_transformed on the full table (thorough tier): n, and the pairs (1-based into PAIRS)
FULL_PAIRS = [1, 4]


def dev_of_index(k):
    return "Stat14_15_LongestRun" if k in (15, 16) else "ForeAfter_StepTwoAscent"


def dev_of_indices(ks):
    return sorted({dev_of_index(k) for k in ks if k in DEVIATING})


class Judge:
    """ideal / named deviation / anything else, with the per-deviation bookkeeping."""

    def __init__(self, ctx):
        self.ctx = ctx
        self.unlisted = {}

    def accept_deviation(self, dev, witness):
        """True if `dev` is a listed known finding (recorded); False -> caller raises the violation."""
        e = self.ctx.known_entry(KF_SITE[dev], dev)
        if e is not None:
            self.ctx.known_finding(e, witness)
            return True
        self.unlisted[dev] = self.unlisted.get(dev, 0) + 1
        return False

    def judge(self, case, clause, ideal, devs, observed):
        """devs: {deviation name: value under that deviation} (may be empty)."""
        if observed == ideal:
            return True
        for dev, val in devs.items():
            if observed == val:
                if self.accept_deviation(dev, dict(case, observed=observed, definition=ideal)):
                    return True
                if self.unlisted[dev] <= 3:         # not listed in known_findings.json: a violation (first three spelled out)
                    self.ctx.violation(dict(case, unlisted_known_deviation=dev, call_site=KF_SITE[dev]), clause, ideal, observed)
                return False
        self.ctx.violation(case, clause, ideal, observed)
        return False

    def finish(self):
        for dev, cnt in self.unlisted.items():
            self.ctx.note("unlisted_deviation_" + dev, "%d observations equal to the named deviation %s at call site %r but "
                          "known_findings.json has no such entry" % (cnt, dev, KF_SITE[dev]))


# ------------------------------------------------------------------------------------------------
# observation of one permutation: every method, canonical forms
# ------------------------------------------------------------------------------------------------
def srt(it):
    return sorted(list(x) if isinstance(x, tuple) else x for x in it)


def canon_cycles(cs):
    out = []
    for c in cs:
        c = list(c)
        m = c.index(max(c))
        out.append(c[m:] + c[:m])
    return sorted(out, key=lambda c: c[0])


def pats(d):
    return sorted([list(k), v] for k, v in d.items() if v)


def runs(t):
    return [t[0], sorted(t[1])]


def table_by_name():
    """{name: (index, func)} of the real table, read through get_by_index."""
    out = {}
    i = 0
    while True:
        try:
            s = PS.get_by_index(i)
        except IndexError:
            break
        out.setdefault(s.name, (i, s.func))
        i += 1
        if i > 500:
            break
    return out


def families(P):
    """field -> (listing variants {label: thunk -> canonical value}, count variants {label: thunk})."""
    n = len(P)
    fam = {
        "des": ({"descents()": lambda: srt(P.descents()), "descent_set()": lambda: srt(P.descent_set())},
                {"count_descents()": P.count_descents}),
        "asc": ({"ascents()": lambda: srt(P.ascents()), "ascent_set()": lambda: srt(P.ascent_set())},
                {"count_ascents()": P.count_ascents}),
        "peaks": ({"peaks()": lambda: srt(P.peaks()), "peak_list()": lambda: srt(P.peak_list())},
                  {"count_peaks()": P.count_peaks, "count_pinnacles()": P.count_pinnacles}),
        "valleys": ({"valleys()": lambda: srt(P.valleys()), "valley_list()": lambda: srt(P.valley_list())},
                    {"count_valleys()": P.count_valleys}),
        "pinn": ({"pinnacles()": lambda: srt(P.pinnacles()), "pinnacle_set()": lambda: srt(P.pinnacle_set())}, {}),
        "bends": ({"bends()": lambda: srt(P.bends()), "bend_list()": lambda: srt(P.bend_list())}, {}),
        "incb": ({"inc_bonds()": lambda: srt(P.inc_bonds())}, {"count_inc_bonds()": P.count_inc_bonds}),
        "decb": ({"dec_bonds()": lambda: srt(P.dec_bonds())}, {"count_dec_bonds()": P.count_dec_bonds}),
        "bonds": ({"all_bonds()": lambda: srt(P.all_bonds())}, {"count_bonds()": P.count_bonds}),
        "ltrmin": ({"ltrmin()": lambda: srt(P.ltrmin())}, {"count_ltrmin()": P.count_ltrmin}),
        "ltrmax": ({"ltrmax()": lambda: srt(P.ltrmax())}, {"count_ltrmax()": P.count_ltrmax}),
        "rtlmin": ({"rtlmin()": lambda: srt(P.rtlmin())}, {"count_rtlmin()": P.count_rtlmin}),
        "rtlmax": ({"rtlmax()": lambda: srt(P.rtlmax())}, {"count_rtlmax()": P.count_rtlmax}),
        "inv": ({"inversions()": lambda: srt(P.inversions())}, {"count_inversions()": P.count_inversions}),
        "noninv": ({"non_inversions()": lambda: srt(P.non_inversions())}, {"count_non_inversions()": P.count_non_inversions}),
        "fix": ({"fixed_points()": lambda: srt(P.fixed_points())}, {"count_fixed_points()": P.count_fixed_points}),
        "sfix": ({"strong_fixed_points()": lambda: srt(P.strong_fixed_points())}, {}),
        "cycles": ({"cycle_decomp()": lambda: canon_cycles(P.cycle_decomp())}, {"count_cycles()": P.count_cycles}),
        "cpk": ({"cyclic_peaks()": lambda: srt(P.cyclic_peaks()), "cyclic_peaks_list()": lambda: srt(P.cyclic_peaks_list())},
                {"count_cyclic_peaks()": P.count_cyclic_peaks}),
        "cval": ({"cyclic_valleys()": lambda: srt(P.cyclic_valleys()), "cyclic_valleys_list()": lambda: srt(P.cyclic_valleys_list())},
                 {"count_cyclic_valleys()": P.count_cyclic_valleys}),
        "cdexc": ({"double_excedance()": lambda: srt(P.double_excedance()), "double_excedance_list()": lambda: srt(P.double_excedance_list())},
                  {"count_double_excedance()": P.count_double_excedance}),
        "cddrop": ({"double_drops()": lambda: srt(P.double_drops()), "double_drops_list()": lambda: srt(P.double_drops_list())},
                   {"count_double_drops()": P.count_double_drops}),
        "fmax": ({"foremaxima()": lambda: srt(P.foremaxima())}, {"count_foremaxima()": P.count_foremaxima}),
        "amin": ({"afterminima()": lambda: srt(P.afterminima())}, {"count_afterminima()": P.count_afterminima}),
        "amax": ({"aftermaxima()": lambda: srt(P.aftermaxima())}, {"count_aftermaxima()": P.count_aftermaxima}),
        "fmin": ({"foreminima()": lambda: srt(P.foreminima())}, {"count_foreminima()": P.count_foreminima}),
        "layers": ({"rtlmax_ltrmin_decomposition()": lambda: [sorted(x) for x in P.rtlmax_ltrmin_decomposition()]},
                   {"count_rtlmax_ltrmin_layers()": P.count_rtlmax_ltrmin_layers}),
        "desStep": ({"descents(step_size=s)": lambda: [srt(P.descents(step_size=s)) for s in range(1, n + 1)],
                     "descent_set(step_size=s)": lambda: [srt(P.descent_set(step_size=s)) for s in range(1, n + 1)]}, {}),
        "ascStep": ({"ascents(step_size=s)": lambda: [srt(P.ascents(step_size=s)) for s in range(1, n + 1)],
                     "ascent_set(step_size=s)": lambda: [srt(P.ascent_set(step_size=s)) for s in range(1, n + 1)]}, {}),
        # single-valued
        "order": ({"order()": P.order}, {}), "invol": ({"is_involution()": P.is_involution}, {}),
        "maj": ({"major_index()": P.major_index}, {}), "depth": ({"depth()": P.depth}, {}),
        "renc": ({"rank_encoding()": lambda: list(P.rank_encoding())}, {}),
        "lra": ({"longestruns_ascending()": lambda: runs(P.longestruns_ascending())}, {}),
        "lrd": ({"longestruns_descending()": lambda: runs(P.longestruns_descending())}, {}),
        "mdr": ({"maximal_decreasing_run()": P.maximal_decreasing_run}, {}),
        "bounces": ({"count_bounces()": P.count_bounces}, {}), "maxdrop": ({"max_drop_size()": P.max_drop_size}, {}),
        "holey": ({"holeyness()": P.holeyness}, {}), "colprimes": ({"count_column_sum_primes()": P.count_column_sum_primes}, {}),
        "pats3": ({"threepats()": lambda: pats(P.threepats())}, {}), "pats4": ({"fourpats()": lambda: pats(P.fourpats())}, {}),
        "ssorts": ({"count_stack_sorts()": P.count_stack_sorts}, {}), "psorts": ({"count_pop_stack_sorts()": P.count_pop_stack_sorts}, {}),
    }
    for f, names in ALIASES.items():            # alternative spellings of the counting forms
        for nm in names:
            if hasattr(P, nm):
                fam[f][1][nm + "()"] = getattr(P, nm)
    return fam


ALIASES = {"des": ["num_descents"], "asc": ["num_ascents"], "peaks": ["num_peaks", "num_pinnacles"], "valleys": ["num_valleys"],
           "ltrmin": ["num_ltrmin"], "bonds": ["num_bonds", "bonds"], "incb": ["num_inc_bonds"], "decb": ["num_dec_bonds"],
           "cycles": ["num_cycles"], "layers": ["num_rtlmax_ltrmin_layers"]}
STEP_COUNTS = (("desStep", "count_descents"), ("ascStep", "count_ascents"))
RUN_LENGTHS = (("lra", "length_of_longestrun_ascending"), ("lrd", "length_of_longestrun_descending"))


def shape_ok(f, v):
    """Type shape of a canonical value (guards the trace file: TLC cannot compare across types)."""
    def ints(x):
        return isinstance(x, list) and all(isinstance(e, int) and not isinstance(e, bool) for e in x)

    def lol(x):
        return isinstance(x, list) and all(ints(e) for e in x)
    if f in ("order", "maj", "depth", "mdr", "bounces", "maxdrop", "holey", "colprimes", "ssorts", "psorts", "gap"):
        return isinstance(v, int) and not isinstance(v, bool)
    if f in ("invol", "gapdef"):
        return isinstance(v, bool)
    if f in ("inv", "noninv", "cycles", "layers", "desStep", "ascStep"):
        return lol(v)
    if f in ("lra", "lrd"):
        return isinstance(v, list) and len(v) == 2 and isinstance(v[0], int) and ints(v[1])
    if f in ("pats3", "pats4"):
        return isinstance(v, list) and all(isinstance(e, list) and len(e) == 2 and ints(e[0]) and isinstance(e[1], int) for e in v)
    if f == "named":
        return ints(v) and len(v) == 32
    return ints(v)


def observe(ctx, P, judge=None, ideal=None, dev=None, tab=None):
    """Call every method.  Returns (canonical record of the first listing variant per field, #calls).
    With `ideal` given (spec -> code) every variant is judged on the spot."""
    p = list(P)
    obs = {}
    calls = 0
    for f, (listings, counts) in families(P).items():
        first = None
        for label, thunk in listings.items():
            st, val = util.call(thunk)
            calls += 1
            case = {"kind": "perm", "p": p, "field": f, "method": label}
            if st == "raise":
                ctx.violation(case, "NoException", "a value", {"raised": val})
                continue
            if not shape_ok(f, val):
                ctx.violation(case, "StatisticIsDefinition", ideal[f] if ideal else "a value of the documented shape", repr(val))
                continue
            if first is None:
                first = val
            if ideal is not None:
                devs = {DEV_OF_FIELD[f]: dev[f]} if f in DEV_OF_FIELD else {}
                judge.judge(case, "StatisticIsDefinition", ideal[f], devs, val)
        if first is not None:
            obs[f] = first
        for label, thunk in counts.items():
            st, val = util.call(thunk)
            calls += 1
            case = {"kind": "perm", "p": p, "field": f, "method": label}
            if st == "raise":
                ctx.violation(case, "NoException", "a count", {"raised": val})
            elif first is not None and val != len(first):
                ctx.violation(case, "CountEqualsListing", len(first), val)
    n = len(p)
    for f, meth in STEP_COUNTS:
        if f in obs:
            for s in range(1, n + 1):
                st, val = util.call(getattr(P, meth), step_size=s)
                calls += 1
                if st == "raise" or val != len(obs[f][s - 1]):
                    ctx.violation({"kind": "perm", "p": p, "field": f, "method": "%s(step_size=%d)" % (meth, s)},
                                  "CountEqualsListing", len(obs[f][s - 1]), val)
    for f, meth in RUN_LENGTHS:
        if f in obs:
            st, val = util.call(getattr(P, meth))
            calls += 1
            if st == "raise" or val != obs[f][0]:
                ctx.violation({"kind": "perm", "p": p, "field": f, "method": meth + "()"}, "CountEqualsListing", obs[f][0], val)
    # min_gapsize: undefined (no pair of points) below length 2 - recorded, not judged
    st, val = util.call(P.min_gapsize)
    calls += 1
    obs["gapdef"] = st == "ok"
    obs["gap"] = val if st == "ok" and isinstance(val, int) else 0
    if ideal is not None and ideal["gapdef"]:
        case = {"kind": "perm", "p": p, "field": "gap", "method": "min_gapsize()"}
        if st == "raise":
            ctx.violation(case, "NoException", ideal["gap"], {"raised": val})
        else:
            judge.judge(case, "StatisticIsDefinition", ideal["gap"], {}, val)
    # the table of named statistics, BY NAME
    tab = tab if tab is not None else table_by_name()
    named = []
    for k, name in enumerate(NAMES, start=1):
        if name not in tab:
            named.append(None)
            continue
        idx, func = tab[name]
        st, val = util.call(func, P)
        calls += 1
        case = {"kind": "perm", "p": p, "field": "named", "index": idx, "name": name}
        if st == "raise" or not isinstance(val, int) or isinstance(val, bool):
            ctx.violation(case, "NoException" if st == "raise" else "NamedStatisticIsDefinition",
                          ideal["named"][k - 1] if ideal else "an integer", {"raised": val} if st == "raise" else repr(val))
            named.append(None)
            continue
        named.append(val)
        if ideal is not None:
            devs = {dev_of_index(k): dev["named"][k - 1]} if k in DEVIATING else {}
            judge.judge(case, "NamedStatisticIsDefinition", ideal["named"][k - 1], devs, val)
    obs["named"] = named
    return obs, calls


def traceable(obs):
    return all(v is not None for v in obs["named"]) and len(obs) == 48       # 45 method families + gapdef, gap, named


# ------------------------------------------------------------------------------------------------
# the tools
# ------------------------------------------------------------------------------------------------
_KW_DRIFT = set()


def kw_or_positional(ctx, f, names, *args):
    """f called with its documented parameter names as keywords; on a tree where a parameter is named differently the
    call is made positionally instead (drift, never a verdict)."""
    kw = dict(zip(names, args))
    try:
        inspect.signature(f).bind(**kw)
    except (TypeError, ValueError) as e:
        key = getattr(f, "__name__", str(f))
        if key not in _KW_DRIFT:
            _KW_DRIFT.add(key)
            ctx.drift("keyword form of %s not available (%s): called positionally" % (key, e))
        return f(*args)
    return f(**kw)


def av_of(basis):
    return Av(Basis(*[Perm(b) for b in basis])) if basis else None


def strip(lst):
    lst = list(lst)
    while lst and lst[-1] == 0:
        lst.pop()
    return lst


def idx_of_names(names, tab):
    """names reported by a tool -> 1-based spec indices (None for a name the spec does not know)."""
    return [NAMES.index(nm) + 1 if nm in NAMES else None for nm in names]


def judge_members(judge, case, clause, universe, observed, ideal, devd, touched):
    """Per-item iff: item in observed  <=>  item in ideal (or, for items touching a deviating statistic, in devd)."""
    observed, ideal, devd = set(observed), set(ideal), set(devd)
    bad = 0
    for it in universe:
        o, i, d = it in observed, it in ideal, it in devd
        if o == i:
            continue
        ks = touched(it)
        if o == d and ks:
            ok = True
            for dv in ks:
                ok = judge.accept_deviation(dv, dict(case, item=it, reported=o, definition=i)) and ok
            if ok:
                continue
            if all(judge.unlisted.get(dv, 0) > 3 for dv in ks):
                continue
        bad += 1
        if bad <= 1:
            judge.ctx.violation(dict(case, item=it), clause, {"reported": i}, {"reported": o})
    extra = observed - set(universe)
    if extra:
        judge.ctx.violation(dict(case, items=sorted(extra)[:5]), clause, "only statistics of the table", "reported items outside the table")
    return bad == 0 and not extra


def replay_dist(ctx, judge, r, tab, rows):
    basis = [tuple(b) for b in r["basis"]]
    n = r["len"]
    av = av_of(basis)
    ctx.case(("dist", tuple(basis), n), nontrivial=r["size"] > 1, n=32)
    for k, name in enumerate(NAMES, start=1):
        if name not in tab:
            continue
        idx = tab[name][0]
        case = {"kind": "dist", "basis": [list(b) for b in basis], "n": n, "index": idx, "name": name}
        st, got = util.call(lambda: PS.get_by_index(idx).distribution_for_length(n, av))
        if st == "raise" or not isinstance(got, list):
            ctx.violation(case, "NoException", r["i"][k - 1], {"raised": got})
            continue
        if sum(got) != r["size"]:
            ctx.violation(case, "DistributionSumsToClassSize", r["size"], sum(got))
            continue
        devs = {dev_of_index(k): strip(r["d"][DEVIATING.index(k)])} if k in DEVIATING else {}
        judge.judge(case, "DistributionIsDefinition", strip(r["i"][k - 1]), devs, strip(got))
        rows.setdefault((tuple(basis), k), {})[n] = got
        if (k + n + len(basis)) % 5 == 0:
            # history: ONE statistic object asked twice more - keyword arguments, the class enumerated beyond the level in
            # between, then after the class forgot what it had enumerated
            stat = PS.get_by_index(idx)
            again = []
            # (unjudged fillers: the same object asked about other classes and levels first)
            util.call(lambda: stat.distribution_for_length(n))
            util.call(lambda: stat.distribution_for_length(n, Av(Basis(Perm((0, 1, 2, 3, 4))))))
            util.call(lambda: stat.distribution_for_length(max(n - 1, 0), av))
            st, a1 = util.call(lambda: kw_or_positional(ctx, stat.distribution_for_length, ("n", "perm_class"), n, av))
            again.append(("same object, keyword arguments", st, a1))
            if av is not None:
                util.call(lambda: [len(list(av.of_length(m))) for m in range(n + 3)])
            st, a2 = util.call(lambda: stat.distribution_for_length(n, av))
            again.append(("same object, class enumerated to length n + 2 in between", st, a2))
            if av is not None and hasattr(Av, "clear_cache"):
                util.call(Av.clear_cache)
                st, a3 = util.call(lambda: stat.distribution_for_length(n, av_of(basis)))
                again.append(("after Av.clear_cache()", st, a3))
            for hist, st, val in again:
                c2 = dict(case, history=hist)
                if st == "raise" or not isinstance(val, list):
                    ctx.violation(c2, "NoException", r["i"][k - 1], {"raised": val})
                else:
                    judge.judge(c2, "DistributionIsDefinition", strip(r["i"][k - 1]), devs, strip(val))


def replay_up_to(ctx, judge, rows, tab, maxlen):
    """distribution_up_to(n) is the table of the per-length distributions (already judged one by one)."""
    for (basis, k), by_len in rows.items():
        if sorted(by_len) != list(range(maxlen + 1)) or k not in (1, 4, 15, 17, 29):
            continue
        idx = tab[NAMES[k - 1]][0]
        st, got = util.call(lambda: PS.get_by_index(idx).distribution_up_to(maxlen, av_of(basis)))
        ctx.case(("upto", basis, k), nontrivial=True)
        want = [by_len[m] for m in range(maxlen + 1)]
        if st == "raise" or got != want:
            ctx.violation({"kind": "dist-up-to", "basis": [list(b) for b in basis], "n": maxlen, "index": idx},
                          "DistributionUpToIsTableOfLevels", want, got)


def replay_eq(ctx, judge, r, tab):
    a, b, n = av_of([tuple(x) for x in r["b1"]]), av_of([tuple(x) for x in r["b2"]]), r["n"]
    case = {"kind": "eq", "b1": r["b1"], "b2": r["b2"], "n": n}
    known = [k for k, nm in enumerate(NAMES, start=1) if nm in tab]
    ctx.case(("eq", json.dumps(case)), nontrivial=0 < len(r["eqI"]) < 32, n=2)
    st, got = util.call(lambda: list(PS.equally_distributed(a, b, n)))
    if st == "raise":
        ctx.violation(case, "NoException", r["eqI"], {"raised": got})
    else:
        judge_members(judge, dict(case, tool="equally_distributed"), "EquallyDistributedIff", known,
                      [k for k in idx_of_names(got, tab) if k], r["eqI"], r["eqD"],
                      lambda k: dev_of_indices([k]))
    # lazy answers: two iterators of the same question alive at once, advanced in turn; each must give the whole answer
    def in_turn():
        g1, g2 = PS.equally_distributed(a, b, n), kw_or_positional(ctx, PS.equally_distributed, ("class1", "class2", "n"), a, b, n)
        o1, o2, live = [], [], [True, True]
        while any(live):
            for j, (g, o) in enumerate(((g1, o1), (g2, o2))):
                if live[j]:
                    x = next(g, None)
                    if x is None:
                        live[j] = False
                    else:
                        o.append(x)
        return o1, o2
    st, got = util.call(in_turn)
    if st == "raise":
        ctx.violation(dict(case, history="two iterators alive"), "NoException", r["eqI"], {"raised": got})
    else:
        for which, lst in zip(("first", "second (keyword arguments)"), got):
            judge_members(judge, dict(case, tool="equally_distributed", history="two iterators alive at once, advanced in turn: " + which),
                          "EquallyDistributedIff", known, [k for k in idx_of_names(lst, tab) if k], r["eqI"], r["eqD"],
                          lambda k: dev_of_indices([k]))
    st, got = util.call(lambda: list(PS.jointly_equally_distributed(a, b, n, 2)))
    if st == "raise":
        ctx.violation(case, "NoException", "pairs", {"raised": got})
        return
    obs = []
    for t in got:
        ks = idx_of_names(t, tab)
        if None not in ks and len(ks) == 2:
            obs.append(tuple(sorted(ks)))
    univ = [(k, l) for k in known for l in known if k < l]
    judge_members(judge, dict(case, tool="jointly_equally_distributed"), "JointlyEquallyDistributedIff", univ, obs,
                  [tuple(x) for x in r["jointI"]], [tuple(x) for x in r["jointD"]], dev_of_indices)


def replay_eqt(ctx, judge, r, tab):
    """jointly_transformed_equally_distributed on the sub-table r['sub'] (the class attribute holding the
    table is narrowed for the duration of the call; the entries themselves are the real ones)."""
    sub = r["sub"]
    if not hasattr(PS, "_STATISTICS") or any(NAMES[k - 1] not in tab for k in sub):
        ctx.drift("jointly_transformed_equally_distributed: the table attribute is not reachable; sub-table run skipped")
        return
    a, b, n = av_of([tuple(x) for x in r["b1"]]), av_of([tuple(x) for x in r["b2"]]), r["n"]
    case = {"kind": "eqt", "b1": r["b1"], "b2": r["b2"], "n": n, "sub": sub}
    full = PS._STATISTICS
    narrowed = tuple(full[tab[NAMES[k - 1]][0]] for k in sub)
    PS._STATISTICS = narrowed
    try:
        st, got = util.call(lambda: list(PS.jointly_transformed_equally_distributed(a, b, n, 2)))
    finally:
        PS._STATISTICS = full
    ctx.case(("eqt", json.dumps(case)), nontrivial=len(r["jtI"]) > 0)
    if st == "raise":
        ctx.violation(case, "NoException", "pairs of pairs", {"raised": got})
        return
    obs = set()
    for s1, s2 in got:
        k1, k2 = idx_of_names(s1, tab), idx_of_names(s2, tab)
        obs.add((tuple(k1), tuple(k2)))
    ideal = {(tuple(x[0]), tuple(x[1])) for x in r["jtI"]}
    devd = {(tuple(x[0]), tuple(x[1])) for x in r["jtD"]}
    order = {k: i for i, k in enumerate(sub)}
    ordp = [(k, l) for k in sub for l in sub if k != l]

    def before(s1, s2):
        return (order[s1[0]], order[s1[1]]) < (order[s2[0]], order[s2[1]])
    enumerated = [(s1, s2) for s1 in ordp for s2 in ordp if before(s1, s2)]
    judge_members(judge, case, "JointlyTransformedIff", enumerated, obs, ideal, devd,
                  lambda it: dev_of_indices(list(it[0]) + list(it[1])))
    missed = [it for it in ideal if not before(it[0], it[1])]
    if missed:
        ctx.note("jointly_transformed_not_enumerated",
                 "the tool enumerates unordered pairs of statistic pairs (s1 before s2 in table order) and tests s1 on class1 "
                 "against s2 on class2 only; pairs for which the identity holds the other way round (or with s1 = s2) are "
                 "never examined, e.g. %s on %s" % (missed[0], case))


def replay_bij(ctx, judge, r, tab):
    bij = {Perm(k): Perm(v) for k, v in r["bij"]}
    case = {"kind": "bij", "sym": r["sym"], "bij": r["bij"] if r["sym"] == "data" else "symmetry %s on S<=4" % r["sym"]}
    known = [k for k, nm in enumerate(NAMES, start=1) if nm in tab]
    ctx.case(("bij", json.dumps(r["bij"])), nontrivial=0 < len(r["presI"]) < 32, n=3)
    st, got = util.call(lambda: list(PS.check_all_preservations(bij)))
    if st == "raise":
        ctx.violation(case, "NoException", r["presI"], {"raised": got})
    else:
        judge_members(judge, dict(case, tool="check_all_preservations"), "PreservedIff", known,
                      [k for k in idx_of_names(got, tab) if k], r["presI"], r["presD"], lambda k: dev_of_indices([k]))
    single = []
    for k in known:
        st, v = util.call(lambda: PS.get_by_index(tab[NAMES[k - 1]][0]).preserved_in(bij))
        if st == "ok" and v is True:
            single.append(k)
        elif st == "raise":
            ctx.violation(dict(case, index=tab[NAMES[k - 1]][0]), "NoException", k in r["presI"], {"raised": v})
    judge_members(judge, dict(case, tool="preserved_in"), "PreservedIff", known, single, r["presI"], r["presD"],
                  lambda k: dev_of_indices([k]))
    st, got = util.call(lambda: PS.check_all_transformed(bij))
    if st == "raise" or not isinstance(got, dict):
        ctx.violation(case, "NoException", "a dictionary", {"raised": got})
        return
    obs = []
    for n1, lst in got.items():
        for n2 in lst:
            ks = idx_of_names([n1, n2], tab)
            if None not in ks:
                obs.append(tuple(ks))
    univ = [(k, l) for k in known for l in known]
    judge_members(judge, dict(case, tool="check_all_transformed", reported_pairs=len(obs), pairs_by_definition=len(r["transI"])),
                  "TransformedIff", univ, obs, [tuple(x) for x in r["transI"]], [tuple(x) for x in r["transD"]], dev_of_indices)
    # history: the same questions after each other on the same dictionary, on an equal dictionary filled in the opposite
    # order, two lazy answers alive at once, one statistic object asked about several bijections
    rev = {Perm(k): Perm(v) for k, v in reversed(r["bij"])}

    def in_turn():
        g1, g2 = PS.check_all_preservations(bij), kw_or_positional(ctx, PS.check_all_preservations, ("bijection",), rev)
        o1, o2, live = [], [], [True, True]
        while any(live):
            for j, (g, o) in enumerate(((g1, o1), (g2, o2))):
                if live[j]:
                    x = next(g, None)
                    if x is None:
                        live[j] = False
                    else:
                        o.append(x)
        return o1, o2
    st, got = util.call(in_turn)
    if st == "raise":
        ctx.violation(dict(case, history="two iterators alive"), "NoException", r["presI"], {"raised": got})
    else:
        for which, lst in zip(("same dictionary again", "equal dictionary filled in reverse order"), got):
            judge_members(judge, dict(case, tool="check_all_preservations", history="after check_all_transformed, two iterators alive: " + which),
                          "PreservedIff", known, [k for k in idx_of_names(lst, tab) if k], r["presI"], r["presD"], lambda k: dev_of_indices([k]))
    st, got2 = util.call(lambda: PS.check_all_transformed(rev))
    if st == "raise" or not isinstance(got2, dict):
        ctx.violation(dict(case, history="asked again"), "NoException", "a dictionary", {"raised": got2})
    else:
        obs2 = []
        for n1, lst in got2.items():
            for n2 in lst:
                ks = idx_of_names([n1, n2], tab)
                if None not in ks:
                    obs2.append(tuple(ks))
        judge_members(judge, dict(case, tool="check_all_transformed", history="asked again, equal dictionary filled in reverse order"),
                      "TransformedIff", univ, obs2, [tuple(x) for x in r["transI"]], [tuple(x) for x in r["transD"]], dev_of_indices)
    other = {Perm((0, 1)): Perm((1, 0)), Perm((1, 0, 2)): Perm((0, 1, 2))}
    single2 = []
    for k in known:
        stat = PS.get_by_index(tab[NAMES[k - 1]][0])
        util.call(stat.preserved_in, other)
        st, v = util.call(lambda: kw_or_positional(ctx, stat.preserved_in, ("bijection",), rev))
        if st == "ok" and v is True:
            single2.append(k)
    judge_members(judge, dict(case, tool="preserved_in", history="one statistic object asked about another bijection first; keyword argument"),
                  "PreservedIff", known, single2, r["presI"], r["presD"], lambda k: dev_of_indices([k]))


# ------------------------------------------------------------------------------------------------
def tla_set(xs):
    return "{" + ", ".join(xs) + "}"


def random_bijections(rnd, count):
    out = []
    for i in range(count):
        kind = i % 3
        if kind == 0:                     # a random permutation of S_3 or S_4
            n = rnd.choice([3, 4])
            dom = util.perms_of(n)
            img = list(dom)
            rnd.shuffle(img)
            out.append(list(zip(dom, img)))
        elif kind == 1:                   # a random injection between permutations of mixed lengths
            dom = [p for n in range(0, 5) for p in util.perms_of(n)]
            rnd.shuffle(dom)
            dom = dom[:rnd.randint(3, 12)]
            img = [p for n in range(0, 6) for p in util.perms_of(n)]
            rnd.shuffle(img)
            out.append(list(zip(dom, img[:len(dom)])))
        else:                             # a symmetry composed with a random conjugation on S_4
            sig = Perm(util.rand_perm(rnd, 4))
            op = rnd.choice(["inverse", "reverse", "complement"])
            out.append([(p, tuple(getattr(sig.compose(Perm(p)), op)())) for p in util.perms_of(4)])
    return out


def tools_jobs(quick, bijs, full_pairs):
    maxlen = 5
    dist_maxlen = 5 if quick else 6          # thorough: distributions also on the levels of length 6
    defs = {"ClassesDef": "<<" + ", ".join(tla_set(tlc.tla(list(b)) for b in B) for B in CLASSES) + ">>",
            "PairsDef": tlc.tla([list(p) for p in PAIRS]),
            "BijsDef": "<<" + ", ".join(tla_set("<<%s, %s>>" % (tlc.tla(list(k)), tlc.tla(list(v))) for k, v in b) for b in bijs) + ">>",
            "SubDef": tlc.tla(SUB)}
    mc = util.mc_module("MC_C11T", "C11_Tools", defs)
    base = {"Classes": ("<-", "ClassesDef"), "Pairs": ("<-", "PairsDef"), "Bijs": ("<-", "BijsDef"), "Sub": ("<-", "SubDef"),
            "FullPairs": tla_set(str(x) for x in full_pairs), "FullN": FULL_N, "MaxLen": maxlen, "MaxTab": 5, "SymMax": 4}
    jobs = []
    modes = [("dist", 6 if quick else 13), ("eq", 12), ("eqt", 4), ("bij", 6 if quick else 12)]
    if full_pairs:
        modes.append(("eqtf", len(full_pairs)))
    for mode, nsh in modes:
        for s in range(nsh):
            k = dict(base, Mode='"%s"' % mode, Shard=s, NShards=nsh)
            if mode == "dist":
                k.update(MaxLen=dist_maxlen, MaxTab=dist_maxlen)
            jobs.append((mode, ("MC_C11T", util.cfg(init="Init", next_="Stutter", invariants=TOOLS_INVS + ["EmitState"], constants=k),
                                {"timeout": 3000, "files": {"MC_C11T.tla": mc}})))
    expect = {"dist": len(CLASSES) * (dist_maxlen + 1), "eq": len(PAIRS) * (maxlen + 1), "eqt": len(PAIRS) * (maxlen + 1),
              "bij": 8 + len(bijs), "eqtf": len(full_pairs)}
    return jobs, expect, maxlen, dist_maxlen


def record_events(ctx, rnd, quick, tab):
    """code -> spec: calls of the real code on inputs beyond the exhaustive universe."""
    events = []
    lens = [7] * 14 + [8] * 6 if quick else [7] * 100 + [8] * 150 + [9] * 40 + [10] * 6
    special = [tuple(range(8)), tuple(reversed(range(8))), (2, 7, 3, 1, 4, 8, 6, 0, 5), (1, 0, 3, 2, 5, 4, 7, 6), (4, 5, 6, 7, 0, 1, 2, 3)]
    for p in special[:3 if quick else 5] + [util.rand_perm(rnd, n) for n in lens]:
        obs, calls = observe(ctx, Perm(p))
        ctx.case(("trace-perm", p), nontrivial=True, n=calls)
        if traceable(obs):
            events.append({"op": "Stats", "p": list(p), "obs": obs})
        else:
            ctx.drift("trace: observation of %s incomplete (%d fields); event skipped" % (list(p), len(obs)))
    # primality helper against the definition
    bounds = [(-20, 600), (601, 1500), (1501, 2400)] if quick else [(-50, 1000), (1001, 2000), (2001, 3000), (3001, 4000), (4001, 5000)]
    for lo, hi in bounds:
        st, pr = util.call(lambda: [k for k in range(lo, hi + 1) if pmath.is_prime(k)])
        ctx.case(("prime", lo, hi), nontrivial=True, n=hi - lo + 1)
        if st == "raise":
            ctx.violation({"kind": "prime", "lo": lo, "hi": hi}, "NoException", "booleans", {"raised": pr})
        else:
            events.append({"op": "Prime", "lo": lo, "hi": hi, "primes": pr})
    # preservation / transformation on bijections between longer permutations
    for _ in range(2 if quick else 12):
        n = rnd.choice([5, 6])
        keys = list({util.rand_perm(rnd, n) for _ in range(rnd.randint(4, 9))})
        op = rnd.choice(["reverse", "complement", "inverse", "random"])
        bij = [(k, tuple(getattr(Perm(k), op)()) if op != "random" else util.rand_perm(rnd, n)) for k in keys]
        d = {Perm(k): Perm(v) for k, v in bij}
        st1, pres = util.call(lambda: list(PS.check_all_preservations(d)))
        st2, tr = util.call(lambda: PS.check_all_transformed(d))
        ctx.case(("trace-bij", tuple(bij)), nontrivial=True, n=2)
        if st1 == "raise" or st2 == "raise":
            ctx.violation({"kind": "trace-bij", "bij": bij}, "NoException", "names", {"raised": [pres, tr]})
            continue
        pi = [k for k in idx_of_names(pres, tab) if k]
        ti = [[a, b] for n1, lst in tr.items() for n2 in lst for a, b in [idx_of_names([n1, n2], tab)] if a and b]
        events.append({"op": "Pres", "bij": [[list(k), list(v)] for k, v in bij], "pres": pi, "trans": ti})
    # distributions over levels of length 6
    cheap = [1, 3, 4, 8, 10, 13, 15, 17, 29]
    for _ in range(3 if quick else 12):
        basis = [] if rnd.random() < 0.25 else [util.rand_perm(rnd, rnd.choice([3, 3, 4])) for _ in range(rnd.randint(1, 2))]
        k = rnd.choice(cheap)
        if NAMES[k - 1] not in tab:
            continue
        st, got = util.call(lambda: PS.get_by_index(tab[NAMES[k - 1]][0]).distribution_for_length(6, av_of(basis)))
        ctx.case(("trace-dist", tuple(basis), k), nontrivial=True)
        if st == "raise":
            ctx.violation({"kind": "trace-dist", "basis": basis, "k": k}, "NoException", "a list", {"raised": got})
        else:
            events.append({"op": "Dist", "basis": [list(b) for b in basis], "n": 6, "k": k, "dist": list(got)})
    return events


def _validate_batch(events):
    """One TLC trace-validation run (no shared state touched: runs in a worker thread)."""
    fd, path = tempfile.mkstemp(prefix="verif-trace-", suffix=".json")
    try:
        with os.fdopen(fd, "w") as fh:
            json.dump(events, fh)
        c = util.cfg(init="TInit", next_="TNext", invariants=["TraceDone"])
        return tlc.run_tlc("Trace_C11", c, workers=1, timeout=3000, env={"TRACE_FILE": path})
    finally:
        os.unlink(path)


def validate_in_batches(ctx, events, size):
    """Trace validation of the recorded events, in batches validated side by side (one TLC run each, same
    acceptance conditions as util.validate_trace); returns the verdict with indices into `events`."""
    batches = [(i, events[i:i + size]) for i in range(0, len(events), size)]
    with concurrent.futures.ThreadPoolExecutor(max_workers=12) as ex:
        results = list(ex.map(_validate_batch, [evs for _, evs in batches]))
    verdict = []
    for (off, evs), res in zip(batches, results):
        ctx.add_tlc(res, "trace validation")
        done = [r for r in res.records if isinstance(r, dict) and "verdict" in r]
        if len(done) != 1 or done[0]["n"] != len(evs) or res.distinct != len(evs) + 1:
            raise tlc.MachineryFailure("Trace_C11: trace not fully consumed (%d events, %d states, %d verdict records)\n%s" % (
                len(evs), res.distinct, len(done), res.stdout[-1500:]))
        ctx.traces += len(evs)
        for b in done[0]["verdict"]:
            verdict.append({"i": b["i"] + off, "clause": b["clause"]})
    return {"verdict": verdict, "n": len(events)}


def judge_trace(ctx, judge, events, verdict):
    for b in verdict:
        ev = events[b["i"] - 1]
        clause = b["clause"]
        case = {"kind": "trace-event", "index": b["i"], "op": ev["op"]}
        if ev["op"] == "Stats":
            case["p"] = ev["p"]
        elif ev["op"] == "Pres":
            case["bij"] = ev["bij"]
        elif ev["op"] == "Dist":
            case.update(basis=ev["basis"], n=ev["n"], k=ev["k"])
        else:
            case.update(lo=ev["lo"], hi=ev["hi"])
        if clause.startswith("KF:"):
            _, dev, what = clause.split(":", 2)
            if judge.accept_deviation(dev, dict(case, field=what)):
                continue
            if judge.unlisted[dev] <= 3:
                ctx.violation(dict(case, unlisted_known_deviation=dev, call_site=KF_SITE[dev], field=what),
                              "StatisticIsDefinition", "value of the definition", "value of the named deviation " + dev)
            continue
        observed = ev.get("obs", {}).get(clause) if ev["op"] == "Stats" else {k: v for k, v in ev.items() if k in ("pres", "trans", "dist", "primes")}
        if ev["op"] == "Stats" and clause.startswith("named:"):
            observed = ev["obs"]["named"][int(clause.split(":")[1]) - 1]
        ctx.violation(dict(case, clause_detail=clause), clause.split(":")[0], "value of the definition (Stats.tla)", observed)


ONE_INT = {
    "holeyness": lambda P: P.holeyness(), "bounces": lambda P: P.count_bounces(), "max_drop_size": lambda P: P.max_drop_size(),
    "column_sum_primes": lambda P: P.count_column_sum_primes(), "order": lambda P: P.order(), "depth": lambda P: P.depth(),
    "major_index": lambda P: P.major_index(), "inversions": lambda P: P.count_inversions(),
    "longest_decreasing_run": lambda P: P.length_of_longestrun_descending(),
    "longest_ascending_run": lambda P: P.length_of_longestrun_ascending(),
    "non_inversions": lambda P: P.count_non_inversions(), "descents": lambda P: P.count_descents(), "ascents": lambda P: P.count_ascents(),
    "peaks": lambda P: P.count_peaks(), "valleys": lambda P: P.count_valleys(), "pinnacles": lambda P: P.count_pinnacles(),
    "cycles": lambda P: P.count_cycles(), "fixed_points": lambda P: P.count_fixed_points(),
    "ltrmin": lambda P: P.count_ltrmin(), "ltrmax": lambda P: P.count_ltrmax(), "rtlmin": lambda P: P.count_rtlmin(),
    "rtlmax": lambda P: P.count_rtlmax(), "cyclic_peaks": lambda P: P.count_cyclic_peaks(),
    "cyclic_valleys": lambda P: P.count_cyclic_valleys(), "double_excedance": lambda P: P.count_double_excedance(),
    "double_drops": lambda P: P.count_double_drops(), "inc_bonds": lambda P: P.count_inc_bonds(),
    "dec_bonds": lambda P: P.count_dec_bonds(), "bonds": lambda P: P.count_bonds(),
    "stack_sorts": lambda P: P.count_stack_sorts(), "pop_stack_sorts": lambda P: P.count_pop_stack_sorts(),
    "maximal_decreasing_run": lambda P: P.maximal_decreasing_run(), "min_gapsize": lambda P: P.min_gapsize(),
    "is_involution": lambda P: {True: 1, False: 0}[P.is_involution()],
}
ONE_LIST = {
    "descent_set": lambda P: srt(P.descent_set()), "ascent_set": lambda P: srt(P.ascent_set()), "peak_list": lambda P: srt(P.peak_list()),
    "valley_list": lambda P: srt(P.valley_list()), "pinnacle_set": lambda P: srt(P.pinnacle_set()), "bend_list": lambda P: srt(P.bend_list()),
    "ltrmin": lambda P: srt(P.ltrmin()), "ltrmax": lambda P: srt(P.ltrmax()), "rtlmin": lambda P: srt(P.rtlmin()), "rtlmax": lambda P: srt(P.rtlmax()),
    "fixed_points": lambda P: srt(P.fixed_points()), "strong_fixed_points": lambda P: srt(P.strong_fixed_points()),
    "inc_bonds": lambda P: srt(P.inc_bonds()), "dec_bonds": lambda P: srt(P.dec_bonds()), "all_bonds": lambda P: srt(P.all_bonds()),
    "cyclic_peaks_list": lambda P: srt(P.cyclic_peaks_list()), "cyclic_valleys_list": lambda P: srt(P.cyclic_valleys_list()),
    "double_excedance_list": lambda P: srt(P.double_excedance_list()), "double_drops_list": lambda P: srt(P.double_drops_list()),
    "rank_encoding": lambda P: list(P.rank_encoding()), "cycle_decomp": lambda P: canon_cycles(P.cycle_decomp()),
    "longestruns_ascending": lambda P: runs(P.longestruns_ascending()), "longestruns_descending": lambda P: runs(P.longestruns_descending()),
}
LIST_SHAPE = {"cycle_decomp": "cycles", "longestruns_ascending": "lra", "longestruns_descending": "lrd"}
ORIGINAL_ONE = ["bounces", "max_drop_size", "column_sum_primes", "order", "depth", "major_index", "inversions", "longest_decreasing_run"]
# entries of the table without a named deviation (1-based positions in NAMES); holeyness (21) only up to length 8 there
NAMED_CHEAP = [k for k in range(1, 33) if k not in DEVIATING]
SHORTCUTS = ("inv", "maj", "des", "asc")        # PermutationStatistic.inv() ...: the same statistics, "for easy access"


def special_perms(rnd, n):
    """Structured permutations of length n (input selection only): monotone, layered, simple, involutions, an inflation of a
    simple permutation by monotone blocks, extreme entries at the ends."""
    out = [list(range(n)), list(range(n - 1, -1, -1))]
    cuts = sorted(rnd.sample(range(1, n), min(3, n - 1)))
    layered, lo = [], 0
    for c in cuts + [n]:
        layered += list(range(c - 1, lo - 1, -1))
        lo = c
    out += [layered, [n - 1 - v for v in layered]]
    m = n // 2
    par = [2 * i + 1 for i in range(m)] + [2 * i for i in range(m)]
    if n % 2:
        par = par[:m] + [n - 1] + par[m:]
    out.append(par)
    inv = list(range(n))
    idx = list(range(n))
    rnd.shuffle(idx)
    for a, b in zip(idx[0::2], idx[1::2][: max(1, n // 3)]):
        inv[a], inv[b] = b, a
    out.append(inv)
    full = list(range(n))                      # fixed-point-free involution (n even) / one fixed point
    for a in range(0, n - 1, 2):
        full[a], full[a + 1] = a + 1, a
    out.append(full)
    sizes = [1, 1, 1, 1]
    for _ in range(n - 4):
        sizes[rnd.randrange(4)] += 1
    out.append(list(Perm((1, 3, 0, 2)).inflate([rnd.choice([Perm.identity, Perm.monotone_decreasing])(k) for k in sizes])))
    out += [list(range(1, n)) + [0], [n - 1] + list(range(n - 1)), [(i * 3) % n for i in range(n)] if n % 3 else list(range(n))]
    out.append([v for pair in zip(range(m), range(n - 1, n - 1 - m, -1)) for v in pair] + ([m] if n % 2 else []))   # 0 n-1 1 n-2 ..
    return [q for q in out if sorted(q) == list(range(n))]


# ---- bulk: thousands of permutations of length 11 and more, one cheap definition each ------------------------------------------
# (a statistic that is a maximum over all subsets is exact for short permutations under many wrong short-cuts; the wrong ones
# show on a few permutations in ten thousand from some length on.  The library's own holeyness is slow - all 2^n subsets - so
# it is computed by sixteen interpreters side by side, each with another seed for string hashes.)
BULK_CHILD = r"""
import json, sys
from permuta import Perm
out = []
for stat, p in json.load(sys.stdin):
    try:
        P = Perm(p)
        out.append(P.holeyness() if stat == "holeyness" else getattr(P, stat)())
    except Exception as e:
        out.append("raise " + type(e).__name__)
print(json.dumps(out))
"""


def bulk_probes(ctx):
    import subprocess
    import sys
    quick = ctx.tier == "quick"
    rnd = util.rng(ctx, 1113)
    jobs = [("holeyness", list(util.rand_perm(rnd, 11))) for _ in range(8000 if quick else 30000)]
    jobs += [("holeyness", list(util.rand_perm(rnd, 12))) for _ in range(400 if quick else 6000)]
    nproc = 16
    procs = []
    for k in range(nproc):
        pr = subprocess.Popen([sys.executable, "-c", BULK_CHILD], stdin=subprocess.PIPE, stdout=subprocess.PIPE, stderr=subprocess.PIPE, text=True,
                              env=util.hash_env(1100 + k))
        pr.stdin.write(json.dumps(jobs[k::nproc]))
        pr.stdin.close()
        pr.stdin = None
        procs.append(pr)
    # meanwhile, in this process: the cheap statistics on longer permutations (lengths 11-16)
    one = []
    cheap = sorted(set(ONE_INT) - {"holeyness", "stack_sorts", "pop_stack_sorts"})
    for _ in range(1500 if quick else 12000):
        q = util.rand_perm(rnd, rnd.choice([11, 11, 12, 12, 13, 14, 16]))
        P = Perm(q)
        for stat in rnd.sample(cheap, 3):
            st_, got_ = util.call(ONE_INT[stat], P)
            if st_ == "raise" or isinstance(got_, bool) or not isinstance(got_, int):
                ctx.violation({"kind": "single-statistic", "p": list(q), "stat": stat}, "NoException", "an integer", got_)
            else:
                one.append({"op": "One", "stat": stat, "p": list(q), "res": got_})
        stat = rnd.choice(sorted(ONE_LIST))
        st_, got_ = util.call(ONE_LIST[stat], P)
        if st_ == "ok" and shape_ok(LIST_SHAPE.get(stat, "des"), got_):
            one.append({"op": "OneList", "stat": stat, "p": list(q), "res": got_})
        else:
            ctx.violation({"kind": "single-statistic", "p": list(q), "stat": stat}, "StatisticIsItsDefinition", "a listing of the documented shape", repr(got_)[:200])
    for k, pr in enumerate(procs):
        out, err = pr.communicate(timeout=1500)
        if pr.returncode != 0:
            raise tlc.MachineryFailure("C11: bulk interpreter failed: " + err[-300:])
        for (stat, q), got_ in zip(jobs[k::nproc], json.loads(out)):
            if isinstance(got_, int) and not isinstance(got_, bool):
                one.append({"op": "One", "stat": stat, "p": q, "res": got_})
            else:
                ctx.violation({"kind": "single-statistic", "p": q, "stat": stat}, "NoException", "an integer", got_)
    nch = 16
    chunks_ = [one[k::nch] for k in range(nch)]
    with concurrent.futures.ThreadPoolExecutor(max_workers=nch) as ex_:
        vs_ = list(ex_.map(lambda ch: util.validate_trace(ctx, "Trace_C11b", ch, ntraces=len(ch), timeout=3000), chunks_))
    for ch, v_ in zip(chunks_, vs_):
        for b_ in v_["verdict"]:
            ev_ = ch[b_["i"] - 1]
            ctx.violation({"kind": "single-statistic", "event": ev_}, "StatisticIsItsDefinition:" + b_["clause"], "value by definition (lib Stats)", ev_["res"])
    ctx.case(n=len(one))
    ctx.note("bulk_single_statistic_events_lengths_11_to_16", {"events": len(one), "holeyness_length_11_12": len(jobs)})


def single_statistic_probes(ctx, tab):
    """Many cheap questions on permutations of length 7-10: one statistic per event (Trace_C11b), every permutation held as
    ONE object on which each chosen statistic is asked twice (second round in another order, after the others)."""
    quick = ctx.tier == "quick"
    one = []
    # the sample that has been asked since the first hardening round (kept as it was: same stream, same statistics)
    rnd_one = util.rng(ctx, 1111)
    for _ in range(260 if quick else 1500):
        q = util.rand_perm(rnd_one, rnd_one.choice([7, 7, 7, 8, 8, 9]))
        for stat in (("holeyness",) if len(q) <= 8 else ()) + tuple(rnd_one.sample(sorted(ORIGINAL_ONE), 2)):
            st_, got_ = util.call(ONE_INT[stat], Perm(q))
            if st_ == "ok" and isinstance(got_, int) and not isinstance(got_, bool):
                one.append({"op": "One", "stat": stat, "p": list(q), "res": got_})
    # every cheap statistic, structured and random inputs, each object asked twice
    rnd = util.rng(ctx, 1112)
    perms = []
    for n in (7, 8, 9, 10):
        perms += special_perms(rnd, n)
    perms += [list(util.rand_perm(rnd, rnd.choice([7, 8, 8, 9, 9, 10]))) for _ in range(60 if quick else 600)]
    shortcuts = {}
    for nm in SHORTCUTS:
        st_, obj = util.call(getattr(PS, nm, None) or (lambda: None))
        if st_ == "ok" and obj is not None and getattr(obj, "name", None) in NAMES and callable(getattr(obj, "func", None)):
            shortcuts[nm] = obj
        else:
            ctx.drift("PermutationStatistic.%s() is not available / not a named statistic (not judged)" % nm)
    asked = 0
    nstructured = len(perms) - (60 if quick else 600)
    for pidx, q in enumerate(perms):
        P = Perm(q)
        n = len(q)
        named_ok = [k for k in NAMED_CHEAP if NAMES[k - 1] in tab and (k != 21 or n <= 8)]
        if pidx < nstructured:
            # structured inputs: EVERY cheap statistic (a shortcut taken for a special shape goes wrong on few inputs only)
            plan = [("int", s_) for s_ in sorted(ONE_INT)] + [("list", s_) for s_ in sorted(ONE_LIST)] + [("named", k) for k in named_ok]
            plan += [("step", (st_name, step)) for st_name in ("descents_step", "ascents_step") for step in (1, 2, n - 1)]
            plan += [("shortcut", nm) for nm in sorted(shortcuts)]
            rnd.shuffle(plan)
            second = rnd.sample(plan, 12)
        else:
            plan = [("int", s_) for s_ in rnd.sample(sorted(ONE_INT), 7)] + [("list", s_) for s_ in rnd.sample(sorted(ONE_LIST), 4)]
            plan += [("named", k) for k in rnd.sample(named_ok, 2)]
            plan += [("step", (rnd.choice(["descents_step", "ascents_step"]), rnd.randint(1, n - 1)))]
            if shortcuts and rnd.random() < 0.5:
                plan.append(("shortcut", rnd.choice(sorted(shortcuts))))
            if n > 8:
                plan = [x for x in plan if x != ("int", "holeyness")] + ([("int", "holeyness")] if rnd.random() < 0.3 else [])
            second = list(plan)
            rnd.shuffle(second)
        for rnd_no, (kind, what) in enumerate(plan + second):
            case = {"kind": "single-statistic", "p": list(q), "stat": str(what), "asked": "first" if rnd_no < len(plan) else "again, same object"}
            if kind == "int":
                st_, got_ = util.call(ONE_INT[what], P)
                ev = {"op": "One", "stat": what, "p": list(q), "res": got_}
                ok_shape = isinstance(got_, int) and not isinstance(got_, bool)
            elif kind == "list":
                st_, got_ = util.call(ONE_LIST[what], P)
                ev = {"op": "OneList", "stat": what, "p": list(q), "res": got_}
                ok_shape = st_ == "ok" and shape_ok(LIST_SHAPE.get(what, "des"), got_)
            elif kind == "named":
                st_, got_ = util.call(tab[NAMES[what - 1]][1], P)
                ev = {"op": "One", "stat": "named", "k": what, "p": list(q), "res": got_}
                ok_shape = isinstance(got_, int) and not isinstance(got_, bool)
            elif kind == "shortcut":
                obj = shortcuts[what]
                st_, got_ = util.call(obj.func, P)
                ev = {"op": "One", "stat": "named", "k": NAMES.index(obj.name) + 1, "p": list(q), "res": got_, "via": "PermutationStatistic.%s()" % what}
                ok_shape = isinstance(got_, int) and not isinstance(got_, bool)
            else:
                stat, step = what
                meth = P.count_descents if stat == "descents_step" else P.count_ascents
                st_, got_ = util.call(lambda: kw_or_positional(ctx, meth, ("step_size",), step)) if rnd_no % 2 else util.call(meth, step)
                ev = {"op": "One", "stat": stat, "s": step, "p": list(q), "res": got_}
                ok_shape = isinstance(got_, int) and not isinstance(got_, bool)
            asked += 1
            if st_ == "raise":
                ctx.violation(case, "NoException", "a value", {"raised": got_})
            elif not ok_shape:
                ctx.violation(case, "StatisticIsItsDefinition", "a value of the documented shape", repr(got_)[:200])
            else:
                ev["asked"] = case["asked"]
                one.append(ev)
    nch = 8
    chunks_ = [one[k::nch] for k in range(nch)]
    with concurrent.futures.ThreadPoolExecutor(max_workers=nch) as ex_:
        vs_ = list(ex_.map(lambda ch: util.validate_trace(ctx, "Trace_C11b", ch, ntraces=len(ch), timeout=3000), chunks_))
    for ch, v_ in zip(chunks_, vs_):
        for b_ in v_["verdict"]:
            ev_ = ch[b_["i"] - 1]
            ctx.violation({"kind": "single-statistic", "event": ev_}, "StatisticIsItsDefinition:" + b_["clause"], "value by definition (lib Stats)", ev_["res"])
    ctx.case(n=len(one))
    for q in perms[:60]:
        ctx.nontrivial.add(("single", tuple(q)))
    ctx.note("single_statistic_events_lengths_7_to_10", {"events": len(one), "permutations_each_asked_twice": len(perms), "calls": asked})


def run(ctx):
    quick = ctx.tier == "quick"
    rnd = util.rng(ctx, 11)
    judge = Judge(ctx)
    tab = table_by_name()
    missing = [nm for nm in NAMES if nm not in tab]
    if len(missing) == len(NAMES):
        raise tlc.MachineryFailure("C11: none of the 32 named statistics is present in the table of PermutationStatistic")
    for nm in missing:
        ctx.drift("named statistic %r is not in the table (not judged)" % nm)
    for nm in tab:
        if nm not in NAMES:
            ctx.drift("table entry %r has no definition in Stats.tla (not judged)" % nm)

    # ---- TLC: library sanity, permutation universe, tools ------------------------------
    maxperm = 6 if quick else 7
    nsh = 16 if quick else 48
    jobs = [("sanity", ("LibSanity_Stats", util.cfg(init="Init", next_="Next"), {"timeout": 3000}))]
    for s in range(nsh):
        k = {"MinLen": 0, "MaxLen": maxperm, "Shard": s, "NShards": nsh}
        jobs.append(("perm", ("C11_Stats", util.cfg(init="Init", next_="Stutter", invariants=STATS_INVS + ["EmitState"], constants=k),
                              {"timeout": 3000})))
    bijs = random_bijections(rnd, 6 if quick else 36)
    # degenerate data: the empty bijection (every identity holds vacuously), empty -> empty, a single fixed pair
    bijs += [[], [((), ())], [((0,), (0,))], [((), (0,)), ((0,), ())]]
    tjobs, expect, maxlen, dist_maxlen = tools_jobs(quick, bijs, [] if quick else FULL_PAIRS)
    jobs += tjobs
    # longest-running first
    order = sorted(range(len(jobs)), key=lambda i: {"perm": 0, "eq": 1, "sanity": 2}.get(jobs[i][0], 3))
    results = tlc.run_many([jobs[i][1] for i in order], parallel=16)
    by_kind = {}
    for i, r in zip(order, results):
        by_kind.setdefault(jobs[i][0], []).append(r)
        ctx.add_tlc(r, jobs[i][0] + " shard")
    san = by_kind["sanity"][0].records
    if len(san) != 1 or san[0].get("names") != NAMES or sorted(san[0].get("deviating", [])) != DEVIATING:
        raise tlc.MachineryFailure("C11: LibSanity_Stats did not print the expected table of names: %s" % san)

    # ---- (a) permutations ---------------------------------------------------------------
    nrec = 0
    devseen = {"fmax": 0, "layers": 0, "named14": 0}
    for r in by_kind["perm"]:
        for rec in r.records:
            nrec += 1
            P = Perm(rec["p"])
            _, calls = observe(ctx, P, judge, rec["i"], rec["d"], tab)
            n = len(rec["p"])
            ctx.case(("perm", tuple(rec["p"])), nontrivial=n >= 3 and rec["i"]["des"] != [] and rec["i"]["asc"] != [], n=calls)
            devseen["fmax"] += rec["i"]["fmax"] != rec["d"]["fmax"]
            devseen["layers"] += rec["i"]["layers"] != rec["d"]["layers"]
            devseen["named14"] += rec["i"]["named"][14] != rec["d"]["named"][14]
            if nrec % 211 == 0:
                ctx.sample({"machine": "C11_Stats", "state": {"p": rec["p"], "i": {k: rec["i"][k] for k in ("des", "peaks", "inv", "cycles", "layers", "lis", "holey", "named")},
                                                              "d": {"layers": rec["d"]["layers"], "named": rec["d"]["named"]}}})
    want = sum(len(util.perms_of(k)) for k in range(maxperm + 1))
    if nrec != want:
        raise tlc.MachineryFailure("C11: %d permutation records, expected %d" % (nrec, want))
    if min(devseen.values()) == 0:
        raise tlc.MachineryFailure("C11: a named deviation never differs from the definition on the universe (vacuous): %s" % devseen)
    ctx.note("definition_vs_named_deviation_differs_on", devseen)

    # ---- (b) tools ------------------------------------------------------------------------
    got = {m: 0 for m in expect}
    rows = {}
    for mode in ("dist", "eq", "eqt", "bij", "eqtf"):
        for r in by_kind.get(mode, []):
            for rec in r.records:
                got[mode] += 1
                if mode == "dist":
                    replay_dist(ctx, judge, rec["r"], tab, rows)
                elif mode == "eq":
                    replay_eq(ctx, judge, rec["r"], tab)
                elif mode in ("eqt", "eqtf"):
                    replay_eqt(ctx, judge, rec["r"], tab)
                else:
                    replay_bij(ctx, judge, rec["r"], tab)
                if got[mode] == 2:
                    small = dict(rec["r"])
                    for key in ("bij", "jointI", "jointD", "transI", "transD", "jtI", "jtD"):
                        if key in small:
                            small[key] = small[key][:6]
                    ctx.sample({"machine": "C11_Tools", "mode": mode, "state": small})
    if got != expect:
        raise tlc.MachineryFailure("C11: tool records %s, expected %s" % (got, expect))
    replay_up_to(ctx, judge, rows, tab, dist_maxlen)
    ctx.exhaustive = True
    ctx.note("tlc_range", "all permutations of length <= %d (every statistic and listing); %d classes x lengths 0..%d x 32 statistics; "
             "%d pairs of classes x n = 0..%d (equally / jointly equally distributed on the full table, jointly transformed on a "
             "sub-table of %d statistics); the 8 symmetries on S<=4 and %d random bijections (preserved / transformed)" % (
                 maxperm, len(CLASSES), dist_maxlen, len(PAIRS), maxlen, len(SUB), len(bijs)))
    ctx.note("oracle", ORACLE)
    ctx.assumptions.append("jointly_transformed_equally_distributed is exercised on a sub-table of the real table entries by narrowing the "
                           "class attribute PermutationStatistic._STATISTICS for the duration of the call (thorough tier: also the full table)")
    ctx.assumptions.append("fore/after maxima/minima: the cited paper is not available offline; double ascent/descent = three consecutive "
                           "entries in monotone order with the 0-oo / oo-0 boundary convention (the one for which (des,fmax) ~ (exc,fix))")
    ctx.note("not_judged", "min_gapsize on lengths 0 and 1 (no pair of points: undefined by definition; the code raises); "
             "orderings of listings (compared as sorted lists; cycles up to rotation)")

    # ---- code -> spec -------------------------------------------------------------------------
    events = record_events(ctx, rnd, quick, tab)
    v = validate_in_batches(ctx, events, 40 if quick else 30)
    ctx.sample({"machine": "Trace_C11", "events": [dict(e, obs={k: e["obs"][k] for k in ("des", "layers", "named")}) if e["op"] == "Stats" else e
                                                    for e in (events[:1] + [e for e in events if e["op"] == "Dist"][:1])]})
    judge_trace(ctx, judge, events, v["verdict"])
    judge.finish()
    # ---- single statistics on many longer permutations (cheap definitions, one per event) ------------------
    single_statistic_probes(ctx, tab)
    bulk_probes(ctx)
    ctx.rule = ("TLC enumerates every permutation of the universe with the value of every statistic / listing BY DEFINITION "
                "(Stats.tla) and every datum (class level, pair of classes, bijection) with the defining identities of the tools; "
                "each record is replayed through every method / tool of the real code (listings as sorted lists, counts against "
                "their listing, table entries by NAME); non-trivial = permutation of length >= 3 with a descent and an ascent, "
                "class level with more than one element, tool answer that is neither empty nor everything; plus recorded calls "
                "on longer permutations, is_prime on a few thousand integers and larger bijections / levels judged by Trace_C11")


def tool_records(mode, classes, pairs, bijs, sub, full_pairs=()):
    """One TLC run of C11_Tools on explicitly given data; returns the emitted records."""
    defs = {"ClassesDef": "<<" + ", ".join(tla_set(tlc.tla(list(b)) for b in B) for B in classes) + ">>",
            "PairsDef": tlc.tla([list(p) for p in pairs]),
            "BijsDef": "<<" + ", ".join(tla_set("<<%s, %s>>" % (tlc.tla(list(k)), tlc.tla(list(v))) for k, v in b) for b in bijs) + ">>",
            "SubDef": tlc.tla(list(sub))}
    k = {"Classes": ("<-", "ClassesDef"), "Pairs": ("<-", "PairsDef"), "Bijs": ("<-", "BijsDef"), "Sub": ("<-", "SubDef"),
         "FullPairs": tla_set(str(x) for x in full_pairs), "FullN": FULL_N, "MaxLen": 5, "MaxTab": 5, "SymMax": 4,
         "Mode": '"%s"' % mode, "Shard": 0, "NShards": 1}
    res = tlc.run_tlc("MC_C11T", util.cfg(init="Init", next_="Stutter", invariants=TOOLS_INVS + ["EmitState"], constants=k),
                      timeout=3000, files={"MC_C11T.tla": util.mc_module("MC_C11T", "C11_Tools", defs)})
    return res


def replay(ctx, path):
    rec = json.load(open(path))
    case = rec["case"]
    kind = case.get("kind")
    judge = Judge(ctx)
    tab = table_by_name()
    if kind in ("dist", "dist-up-to", "eq", "eqt", "bij"):
        # the expectation is re-asked from TLC for exactly this datum, the real code is re-run on it
        if kind in ("dist", "dist-up-to"):
            basis = [tuple(b) for b in case["basis"]]
            res = tool_records("dist", [basis], [], [], SUB)
            rows = {}
            for r in res.records:
                if kind == "dist-up-to" or r["r"]["len"] == case["n"]:
                    replay_dist(ctx, judge, r["r"], tab, rows)
            if kind == "dist-up-to":
                replay_up_to(ctx, judge, {k: v for k, v in rows.items() if tab[NAMES[k[1] - 1]][0] == case["index"]}, tab, 5)
        elif kind in ("eq", "eqt"):
            b1, b2 = [tuple(b) for b in case["b1"]], [tuple(b) for b in case["b2"]]
            full = kind == "eqt" and len(case["sub"]) == 32
            res = tool_records("eqtf" if full else kind, [b1, b2], [(1, 2)], [], case.get("sub", SUB), full_pairs=[1] if full else ())
            for r in res.records:
                if r["r"]["n"] == case["n"]:
                    (replay_eq if kind == "eq" else replay_eqt)(ctx, judge, r["r"], tab)
        else:
            data = [] if case["sym"] != "data" else [[(tuple(k), tuple(v)) for k, v in case["bij"]]]
            res = tool_records("bij", [], [], data, SUB)
            for r in res.records:
                if r["r"]["sym"] == case["sym"]:
                    replay_bij(ctx, judge, r["r"], tab)
        ctx.add_tlc(res, "replay of one datum")
        if ctx.violations:
            print("  still failing on the current tree (%d clause(s))" % len(ctx.violations))
            return 1
        print("replay: case passes on the current tree")
        return 0
    if kind not in ("perm", "trace-event") or "p" not in case:
        raise tlc.MachineryFailure("this case (%s) is replayed by re-running the check with the same VERIF_SEED" % kind)
    obs, _ = observe(ctx, Perm(case["p"]))
    if not traceable(obs):
        print("VIOLATION property=C11 replay=%s" % path)
        print("  the observation of %s is incomplete (a method raises or returns a value of the wrong shape)" % case["p"])
        return 1
    v = util.validate_trace(ctx, "Trace_C11", [{"op": "Stats", "p": list(case["p"]), "obs": obs}])
    # only the clauses of the recorded field (other fields of the same permutation have their own cases)
    field = case.get("field")
    if field == "named" and case.get("name") in NAMES:
        field = "named:%d" % (NAMES.index(case["name"]) + 1)
    hard = []
    for b in v["verdict"]:
        clause = b["clause"]
        if clause.startswith("KF:"):
            _, dev, what = clause.split(":", 2)
            if field is not None and what != field:
                continue
            if judge.accept_deviation(dev, {"p": case["p"], "field": what}):
                continue
            hard.append(clause + " (deviation not listed in known_findings.json)")
        elif field is None or clause == field:
            hard.append(clause)
    if ctx.violations or hard:
        print("VIOLATION property=C11 replay=%s" % path)
        print("  still failing: %s" % (hard or [x["clause"] for x in ctx.violations]))
        return 1
    print("replay: case passes on the current tree")
    return 0
