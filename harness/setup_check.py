"""bin/setup: SANY over every module (in a scratch copy), py_compile of the harness."""
import glob
import os
import shutil
import sys
import concurrent.futures

from harness import tlc


def main():
    d = tlc.new_scratch("verif-setup-")
    bad = 0
    warn = 0
    try:
        # proof modules that EXTEND TLAPS are parsed by tlapm, not by SANY
        mods = sorted(m for m in glob.glob(os.path.join(d, "*.tla")) if "TLAPS" not in open(m).read().split("=====")[0].split("EXTENDS", 1)[-1].split("\n")[0])
        with concurrent.futures.ThreadPoolExecutor(max_workers=8) as ex:
            for m, (ok, out) in zip(mods, ex.map(tlc.sany, mods)):
                if not ok:
                    # reported, not fatal: a module that does not parse makes the one check that
                    # uses it end in MACHINERY-FAILURE; the other checks are unaffected
                    warn += 1
                    print("SANY FAILED", os.path.basename(m))
                    print(out[-800:])
        print("SANY: %d modules, %d failed" % (len(mods), warn))
    finally:
        shutil.rmtree(d, ignore_errors=True)
    for f in glob.glob(os.path.join(tlc.VERIF, "harness", "**", "*.py"), recursive=True):
        try:
            compile(open(f).read(), f, "exec")
        except SyntaxError as e:
            bad += 1
            print("PY FAILED", f, e)
    os.makedirs(os.path.join(tlc.VERIF, "evidence"), exist_ok=True)
    os.makedirs(os.path.join(tlc.VERIF, "replay"), exist_ok=True)
    sys.exit(1 if bad else 0)


if __name__ == "__main__":
    main()
