"""Shared helpers for the adapters."""
import itertools
import json
import os
import random
import tempfile

from harness import tlc


def cfg(init=None, next_=None, spec=None, constants=None, invariants=(), properties=(), view=None,
        action_constraints=(), constraints=(), postcondition=None, deadlock=False):
    lines = []
    if spec:
        lines.append("SPECIFICATION " + spec)
    else:
        lines.append("INIT " + init)
        lines.append("NEXT " + next_)
    if constants:
        lines.append("CONSTANTS")
        for k, v in constants.items():
            if isinstance(v, tuple) and v[0] == "<-":
                lines.append("  %s <- %s" % (k, v[1]))
            else:
                lines.append("  %s = %s" % (k, v if isinstance(v, str) else tlc.tla(v)))
    for i in invariants:
        lines.append("INVARIANT " + i)
    for p in properties:
        lines.append("PROPERTY " + p)
    if view:
        lines.append("VIEW " + view)
    for a in action_constraints:
        lines.append("ACTION_CONSTRAINT " + a)
    for c in constraints:
        lines.append("CONSTRAINT " + c)
    if postcondition:
        lines.append("POSTCONDITION " + postcondition)
    lines.append("CHECK_DEADLOCK " + ("TRUE" if deadlock else "FALSE"))
    return "\n".join(lines) + "\n"


def mc_module(name, base, defs):
    """A generated wrapper module: EXTENDS the machine and adds definitions (used for constants that a
    cfg file cannot express, via  CONST <- Def)."""
    body = "\n".join("%s == %s" % (k, v) for k, v in defs.items())
    return "---- MODULE %s ----\nEXTENDS %s\n%s\n====\n" % (name, base, body)


def _corrupt(v):
    if isinstance(v, bool):
        return not v
    if isinstance(v, int):
        return v + 1
    if isinstance(v, list):
        if v and isinstance(v[0], int) and len(v) > 1:
            return list(reversed(v)) if v != list(reversed(v)) else v[:-1]
        return v[:-1] if v else None
    return None


_BINDING_SHOWN = set()


def demonstrate_binding(ctx, module, events, constants, invariants, timeout, heap):
    """Once per trace spec and run: corrupt the recorded result of one event in a short prefix of the real trace
    and require that TLC flags exactly that event.  A trace spec that accepts the corrupted trace constrains
    nothing and the check fails as a machinery failure."""
    if module in _BINDING_SHOWN:
        return
    prefix = events[:60]
    if not any("res" in e and _corrupt(e["res"]) is not None for e in prefix):
        return
    _BINDING_SHOWN.add(module)
    clean = {b["i"] for b in validate_trace(ctx, module, prefix, constants=constants, invariants=invariants, timeout=timeout,
                                            what="binding demonstration (uncorrupted prefix)", ntraces=0, heap=heap, _demo=True)["verdict"]}
    for idx in range(len(prefix) - 1, -1, -1):
        e = prefix[idx]
        # an event the spec already flags (e.g. a listed known deviation) is no use: corrupting it may make it right
        if idx + 1 in clean or "res" not in e or _corrupt(e["res"]) is None:
            continue
        bad = dict(e)
        bad["res"] = _corrupt(e["res"])
        mutated = prefix[:idx] + [bad] + prefix[idx + 1:]
        v = validate_trace(ctx, module, mutated, constants=constants, invariants=invariants, timeout=timeout,
                           what="binding demonstration (one corrupted field)", ntraces=0, heap=heap, _demo=True)
        flagged = {b["i"] for b in v["verdict"]}
        if idx + 1 not in flagged:
            raise tlc.MachineryFailure("%s accepted a trace whose event %d had its result corrupted (%s -> %s): the trace "
                                       "spec does not constrain that field" % (module, idx + 1, e["res"], bad["res"]))
        ctx.note("binding_demonstrated_" + module, "event %d op=%s with a corrupted result was rejected" % (idx + 1, e.get("op")))
        return


def validate_trace(ctx, module, events, constants=None, invariants=(), timeout=900, what="trace validation",
                   ntraces=None, heap="3g", _demo=False):
    """Batch trace validation: events (list of dicts) -> Trace_<..> spec.  Returns the verdict record
    {verdict:[{i,clause}], drift:[..], n}.  One TLC step per event; all machine invariants listed are
    evaluated at every step."""
    if not _demo and events:
        # a recorded result with None inside cannot be a value of any documented result type (and TLC cannot read
        # JSON null): such an event is a violation in itself; it is replaced by a neutral copy of a well-typed
        # neighbour so that event numbering stays aligned for the caller
        def has_none(v):
            if v is None:
                return True
            if isinstance(v, dict):
                return any(has_none(x) for x in v.values())
            if isinstance(v, (list, tuple)):
                return any(has_none(x) for x in v)
            return False
        if any(has_none(e) for e in events):
            good = next((e for e in events if not has_none(e)), None)
            fixed = []
            for e in events:
                if has_none(e):
                    ctx.violation({"kind": "trace-event", "event": e}, "WellTypedResult", "a value of the documented result type", "None inside the recorded result")
                    if good is not None:
                        fixed.append(good)
                else:
                    fixed.append(e)
            if good is None:
                return {"verdict": [], "drift": [], "n": len(events)}
            events = fixed
        demonstrate_binding(ctx, module, events, constants, invariants, timeout, heap)
    fd, path = tempfile.mkstemp(prefix="verif-trace-", suffix=".json")
    try:
        with os.fdopen(fd, "w") as fh:
            json.dump(events, fh)
        c = cfg(init="TInit", next_="TNext", constants=constants, invariants=list(invariants) + ["TraceDone"])
        res = tlc.run_tlc(module, c, workers=1, timeout=timeout, env={"TRACE_FILE": path}, heap=heap)
    finally:
        os.unlink(path)
    ctx.add_tlc(res, what)
    done = [r for r in res.records if isinstance(r, dict) and "verdict" in r]
    if len(done) != 1 or done[0]["n"] != len(events) or res.distinct != len(events) + 1:
        raise tlc.MachineryFailure("%s: trace not fully consumed (%d events, %d states, %d verdict records)\n%s" % (
            module, len(events), res.distinct, len(done), res.stdout[-1500:]))
    ctx.traces += ntraces if ntraces is not None else 1
    return done[0]


def perms_of(n):
    return [tuple(p) for p in itertools.permutations(range(n))]


def rng(ctx, salt=0):
    return random.Random(ctx.seed * 1000003 + salt)


def rand_perm(r, n):
    p = list(range(n))
    r.shuffle(p)
    return tuple(p)


def call(f, *a, **k):
    """Call and classify: ("ok", value) or ("raise", ExceptionClassName)."""
    try:
        return ("ok", f(*a, **k))
    except Exception as e:  # pylint: disable=broad-except
        return ("raise", type(e).__name__)


def hash_env(salt=0, **extra):
    """Environment for a second interpreter whose string hashes are seeded differently from this process (bin/check runs
    with PYTHONHASHSEED=0): iteration orders of sets and dictionaries keyed by strings differ there, answers must not."""
    seed = int(os.environ.get("VERIF_SEED", "20261003") or 20261003)
    env = dict(os.environ, PYTHONHASHSEED=str(1 + (seed * 7919 + salt * 104729) % 4294967290))
    env.update(extra)
    return env


def _with_line(frame):
    """Is the line about to run a `with` statement?  The interpreter reports that line a second time when the block is left,
    just before it calls __exit__; an exception raised from the trace function there would skip __exit__ (a lock would stay
    held for ever) - something a real KeyboardInterrupt cannot do, because CPython does not deliver signals at that point.
    Interruptions are therefore never injected on such a line (the next line is taken instead)."""
    import linecache
    return linecache.getline(frame.f_code.co_filename, frame.f_lineno).lstrip().startswith(("with ", "async with "))


def interrupted_call(fn, at, suffixes=("permuta/",)):
    """Run fn(); a KeyboardInterrupt is raised at the at-th line executed in a source file whose path contains one of
    `suffixes` (library code, where its tables are changed).  Returns ("done", value) when fn finished first,
    ("interrupted", where) otherwise.  The caller goes on with the same objects: later answers must not depend on
    an earlier request having been abandoned."""
    import sys
    seen = [0]

    def local(frame, event, arg):
        if event == "line":
            seen[0] += 1
            if seen[0] >= at and not _with_line(frame):
                seen[0] = -10 ** 9
                raise KeyboardInterrupt("%s:%d" % (frame.f_code.co_name, frame.f_lineno))
        return local

    def tracer(frame, event, arg):
        name = frame.f_code.co_filename.replace("\\", "/")
        return local if any(x in name for x in suffixes) else None
    old = sys.gettrace()
    sys.settrace(tracer)
    try:
        return "done", fn()
    except KeyboardInterrupt as e:
        return "interrupted", str(e)
    finally:
        sys.settrace(old)


def digit_twins(rnd, n, structured=False):
    """Two different permutations of length n >= 11 whose entries, written in decimal one after the other, give the same
    string: ... v ... 1 d ...  and  ... 1 d ... v ...  with v = 10 + d.  (Text forms and memo keys made by joining the
    entries cannot tell them apart; the library must.)  structured: the other entries in increasing or decreasing order."""
    v = rnd.choice([x for x in range(10, n) if x - 10 != 1])
    d = v - 10
    rest = [x for x in range(n) if x not in (v, 1, d)]
    if structured:
        if rnd.random() < 0.5:
            rest.reverse()
        i, j = rnd.choice([(0, len(rest)), (0, len(rest)), (0, rnd.randint(0, len(rest))), (rnd.randint(0, len(rest)), len(rest))])
        i, j = min(i, j), max(i, j)
    else:
        rnd.shuffle(rest)
        i, j = sorted((rnd.randint(0, len(rest)), rnd.randint(0, len(rest))))
    A, B, C = rest[:i], rest[i:j], rest[j:]
    a = tuple(A + [v] + B + [1, d] + C)
    b = tuple(A + [1, d] + B + [v] + C)
    assert "".join(map(str, a)) == "".join(map(str, b)) and a != b and sorted(a) == list(range(n))
    return a, b


def weak_hash_start(ctx, adapter, func, buckets=3):
    """Start `func` of the adapter in a second interpreter in which the hashes of the library's objects are reduced modulo
    `buckets` (harness/weakhash.py); weak_hash_finish returns the events it recorded."""
    import subprocess
    import sys
    return subprocess.Popen([sys.executable, "-m", "harness.weakhash", adapter, func, str(ctx.seed), ctx.tier, str(buckets)],
                            stdout=subprocess.PIPE, stderr=subprocess.PIPE, text=True, cwd=getattr(ctx, "scratch", None) or os.getcwd())


def weak_hash_finish(ctx, proc, what):
    import subprocess
    try:
        out, err = proc.communicate(timeout=1500)
    except subprocess.TimeoutExpired as ex:
        proc.kill()
        raise tlc.MachineryFailure("weak-hash interpreter timed out (%s)" % what) from ex
    if proc.returncode != 0:
        last = (err.strip().splitlines() or ["?"])
        # an exception of the library itself in that interpreter is a finding, anything else is the machinery
        inside = [l for l in last if "/permuta/" in l]
        if inside and "harness" not in last[-3] if len(last) >= 3 else False:
            ctx.violation({"kind": "weak-hash interpreter", "what": what}, "NoException", "the calls return", last[-1][:200])
            return []
        raise tlc.MachineryFailure("weak-hash interpreter failed (%s): %s" % (what, "\n".join(last[-6:])))
    doc = json.loads(out)
    if not doc.get("patched"):
        raise tlc.MachineryFailure("weak-hash interpreter: no class was given a weak hash")
    for v in doc["violations"]:
        ctx.violation({"interpreter": "hashes of patterns reduced modulo a small number", "case": v["case"]}, v["clause"], v["expected"], v["observed"])
    ctx.note("weak_hash_interpreter_" + what, {"events": len(doc["events"]), "classes": doc["patched"]})
    return doc["events"]
