"""Results belong to the caller.

Every public function of the library that returns a mutable container (list, dict, set, deque) is wrapped for the
duration of a check: the caller - the adapter, or the library itself when it calls the function internally - receives
a deep copy, and the object the function actually returned is emptied on the spot, as a caller might do with a list
that is his.  For code that builds its result afresh on every call (the unchanged library does, for every function
listed here) this changes nothing.  For code that hands out a container it also keeps - a memoised list, a table
shared between equal objects - the next answer is computed from the emptied container and the check that judges that
answer reports it.  The tables that the unchanged library documents as cached and hands out by reference
(PinWords.*_mapping, Av.cache) are not wrapped: emptying them is misuse, not a use the properties cover.

VERIF_NO_SPOIL=1 switches the wrapping off (to tell a finding of this lens from any other).
"""
import collections
import copy
import functools
import os

# (module, class or None, function name)
TARGETS = [
    ("permuta.patterns.perm", "Perm", n) for n in (
        "descent_set", "ascent_set", "peak_list", "pinnacle_set", "valley_list", "bend_list", "cyclic_peaks_list",
        "cyclic_valleys_list", "double_excedance_list", "double_drops_list", "foremaxima", "afterminima", "cycle_decomp",
        "threepats", "fourpats", "rank_encoding", "sum_decomposition", "skew_decomposition", "block_decomposition_as_pattern",
        "block_decomposition", "children", "coveredby")
] + [
    ("permuta.patterns.meshpatt", "MeshPatt", "can_shade"),
    ("permuta.patterns.meshpatt", "MeshPatt", "non_pointless_boxes"),
    ("permuta.perm_sets.permset", "Av", "enumeration"),
    ("permuta.permutils.symmetry", None, "all_symmetry_sets"),
    ("permuta.permutils.pin_words", "PinWords", "factor_pinword"),
    ("permuta.permutils.pin_words", "PinWords", "pinwords_for_basis"),
]

MUTABLE = (list, dict, set, collections.deque, bytearray)
INSTALLED = []


def empty(x, depth=4):
    """Empty every mutable container reachable from x (children first)."""
    if depth < 0:
        return
    if isinstance(x, dict):
        for v in list(x.values()):
            empty(v, depth - 1)
        x.clear()
    elif isinstance(x, (list, collections.deque)):
        for v in list(x):
            empty(v, depth - 1)
        x.clear()
    elif isinstance(x, (set, bytearray)):
        x.clear()
    elif isinstance(x, tuple) and not all(isinstance(v, int) for v in x):
        for v in x:
            empty(v, depth - 1)


def has_mutable(x, depth=3):
    if isinstance(x, MUTABLE):
        return True
    if depth > 0 and isinstance(x, tuple) and not all(isinstance(v, int) for v in x):
        return any(has_mutable(v, depth - 1) for v in x)
    return False


def wrap(fn):
    @functools.wraps(fn)
    def spoiled(*a, **k):
        r = fn(*a, **k)
        if not has_mutable(r):
            return r
        mine = copy.deepcopy(r)
        empty(r)
        return mine
    spoiled.__verif_spoiled__ = fn
    return spoiled


def install():
    """Wrap the targets that exist (a missing one is skipped: the adapter that needs it will say so)."""
    if os.environ.get("VERIF_NO_SPOIL") or INSTALLED:
        return INSTALLED
    import importlib
    for modname, clsname, name in TARGETS:
        try:
            mod = importlib.import_module(modname)
            owner = getattr(mod, clsname) if clsname else mod
            raw = owner.__dict__[name] if clsname else getattr(owner, name)
        except (ImportError, AttributeError, KeyError):
            continue
        if isinstance(raw, staticmethod):
            new = staticmethod(wrap(raw.__func__))
        elif isinstance(raw, classmethod):
            new = classmethod(wrap(raw.__func__))
        elif callable(raw):
            new = wrap(raw)
        else:
            continue
        if clsname:                       # aliases (Perm.all_intervals = block_decomposition, ...) are other names of the same object
            for other, val in list(owner.__dict__.items()):
                if val is raw:
                    setattr(owner, other, new)
        setattr(owner, name, new)
        INSTALLED.append("%s.%s" % (clsname or modname, name))
        if clsname is None:
            # functions imported by name elsewhere in the package: rebind those references too
            import sys
            for m in list(sys.modules.values()):
                if m is not None and getattr(m, "__name__", "").startswith("permuta") and getattr(m, name, None) is raw:
                    setattr(m, name, new)
    return INSTALLED
