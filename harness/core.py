"""Check context: verdicts, evidence, replay files, known findings.

Verdict policy (DESIGN.md 2.5):
  * VIOLATION only for an observable named in the property that differs from the
    specification's definition and is not a listed known finding;
  * DRIFT for mechanism-level disagreement (never changes the exit status);
  * machinery failure -> exit 2, no VIOLATION line.
"""
import hashlib
import json
import os
import sys
import time

VERIF = os.path.dirname(os.path.dirname(os.path.abspath(__file__)))
REPO = os.environ.get("VERIF_REPO", "/repo")


def _canon(o):
    return json.dumps(o, sort_keys=True, default=str)


class Ctx:
    def __init__(self, pid, tier, seed, level="model_checking"):
        self.pid = pid
        self.tier = tier
        self.seed = seed
        self.level = level
        self.t0 = time.time()
        self.states = 0
        self.transitions = 0
        self.traces = 0
        self.evaluations = 0
        self.nontrivial = set()
        self.rule = ""
        self.samples = []
        self.checker_cmds = []
        self.trusted = ["TLC 1.8.0 (tla2tools) evaluator", "CommunityModules Json/IOUtils/SequencesExt/FiniteSetsExt",
                        "CPython 3.12 of /venv", "harness adapter code (projection + comparison)"]
        self.assumptions = []
        self.violations = []
        self.known_seen = {}
        self.drifts = []
        self.notes = {}
        self.tlc_runs = []
        self.coverage_actions = {}
        self.exhaustive = None
        kf = os.path.join(VERIF, "known_findings.json")
        self.known = []
        if os.path.exists(kf):
            with open(kf) as fh:
                self.known = [e for e in json.load(fh).get("findings", []) if e.get("property") == pid
                              and e.get("status") == "known"]

    # ---- accounting -------------------------------------------------------------
    def add_tlc(self, res, what=""):
        self.states += res.distinct
        self.transitions += max(res.generated, res.distinct)
        self.tlc_runs.append({"what": what, "cmd": res.cmd, "generated": res.generated,
                              "distinct": res.distinct, "wall_s": round(res.wall_s, 2)})
        if res.cmd not in self.checker_cmds:
            self.checker_cmds.append(res.cmd)
        for k, v in res.coverage.items():
            a = self.coverage_actions.get(k, (0, 0))
            self.coverage_actions[k] = (a[0] + v[0], a[1] + v[1])

    def case(self, key=None, nontrivial=False, n=1):
        self.evaluations += n
        if nontrivial and key is not None:
            self.nontrivial.add(key if isinstance(key, (str, int, tuple)) else _canon(key))

    def sample(self, s, limit=6):
        if len(self.samples) < limit:
            self.samples.append(s)

    def note(self, k, v):
        self.notes[k] = v

    def drift(self, what):
        if len(self.drifts) < 50:
            self.drifts.append(what)
        if len(self.drifts) <= 5:
            print("DRIFT property=%s %s" % (self.pid, what))

    # ---- verdicts ---------------------------------------------------------------
    def known_entry(self, site, deviation):
        for e in self.known:
            if e["call_site"] == site and e["deviation"] == deviation:
                return e
        return None

    def known_finding(self, entry, witness):
        k = entry["id"]
        if k not in self.known_seen:
            self.known_seen[k] = {"count": 0, "first_witness": witness}
        self.known_seen[k]["count"] += 1

    def violation(self, case, clause, expected, observed, extra=None):
        """Record a violation; writes a replay file; prints the VIOLATION line (first 10)."""
        rec = {"property": self.pid, "tier": self.tier, "seed": self.seed, "clause": clause,
               "case": case, "expected": expected, "observed": observed}
        if extra:
            rec["extra"] = extra
        h = hashlib.sha1(_canon([self.pid, clause, case]).encode()).hexdigest()[:12]
        d = os.environ.get("VERIF_REPLAY_DIR") or os.path.join(VERIF, "replay")      # (scratch runs against seeded trees)
        os.makedirs(d, exist_ok=True)
        path = os.path.join(d, "%s-%s.json" % (self.pid, h))
        if len(self.violations) < 200:
            with open(path, "w") as fh:
                json.dump(rec, fh, indent=1, default=str)
        self.violations.append({"clause": clause, "replay": path})
        if len(self.violations) <= 10:
            print("VIOLATION property=%s replay=%s" % (self.pid, path))
            print("  clause=%s case=%s" % (clause, _canon(case)[:300]))
            print("  expected=%s" % _canon(expected)[:300])
            print("  observed=%s" % _canon(observed)[:300])
            sys.stdout.flush()

    # ---- evidence ---------------------------------------------------------------
    def finish(self):
        wall = time.time() - self.t0
        for k, v in self.known_seen.items():
            e = [x for x in self.known if x["id"] == k][0]
            print("KNOWN-FINDING: property=%s %s [%s; %d observed; first witness %s]" % (
                self.pid, e["what"], k, v["count"], _canon(v["first_witness"])[:200]))
        cov = {
            "states": self.states,
            "transitions": self.transitions,
            "traces_validated_against_impl": self.traces,
            "samples": self.samples or ["(no sample recorded)"],
            "evaluations": self.evaluations,
            "distinct_nontrivial": len(self.nontrivial),
            "rule": self.rule,
            "checker_cmd": "; ".join(self.checker_cmds[:12]),
            "trusted_base": self.trusted,
            "tlc_runs": self.tlc_runs[:60],
            "action_coverage": {k: list(v) for k, v in self.coverage_actions.items()},
            "drift": self.drifts,
            "known_findings_observed": self.known_seen,
            "notes": self.notes,
        }
        if self.exhaustive is not None:
            cov["exhaustive"] = self.exhaustive
        ev = {"property_id": self.pid, "tier": self.tier, "seed": self.seed, "level": self.level,
              "coverage": cov, "assumptions": self.assumptions, "wall_s": round(wall, 2),
              "violations": len(self.violations)}
        d = os.environ.get("VERIF_EVIDENCE_DIR") or os.path.join(VERIF, "evidence")   # (scratch runs against seeded trees)
        os.makedirs(d, exist_ok=True)
        with open(os.path.join(d, self.pid + ".json"), "w") as fh:
            json.dump(ev, fh, indent=1, default=str)
        print("%s tier=%s: %d TLC states, %d transitions, %d impl evaluations (%d distinct non-trivial), "
              "%d traces validated, %d violations, %d known findings, %d drift, %.1fs" % (
                  self.pid, self.tier, self.states, self.transitions, self.evaluations, len(self.nontrivial),
                  self.traces, len(self.violations), len(self.known_seen), len(self.drifts), wall))
        return 1 if self.violations else 0
