"""Running TLC (exhaustive, simulation, trace validation) from the harness.

Every run happens in a scratch directory created with mkdtemp (outside /verif and
/repo) into which all modules under /verif/specs are copied flat, so nothing is ever
written next to the specification sources.  The scratch directory is removed when the
run object is closed.
"""
import concurrent.futures
import glob
import json
import os
import re
import shutil
import subprocess
import tempfile
import time

VERIF = os.path.dirname(os.path.dirname(os.path.abspath(__file__)))
SPECS = os.path.join(VERIF, "specs")
JAR = "/opt/veriftools/tla/tla2tools.jar"
DEPS = "/opt/veriftools/tla/CommunityModules-deps.jar"


class MachineryFailure(Exception):
    """TLC crashed, a spec does not parse, a timeout hit...: never a verdict."""


class TLCResult:
    def __init__(self):
        self.stdout = ""
        self.returncode = None
        self.generated = 0
        self.distinct = 0
        self.records = []  # JSON objects printed with PrintT(ToJson(..))
        self.violated = None  # name of a violated invariant / property, if any
        self.error_text = ""
        self.wall_s = 0.0
        self.cmd = ""
        self.coverage = {}  # action name -> (distinct, total)  when -coverage was on
        self.sim_files = []


_STATS = re.compile(r"(\d+) states generated, (\d+) distinct states found")
_INV = re.compile(r"Error: Invariant (\S+) is violated")
_PROP = re.compile(r"Error: (?:Temporal|Action) propert(?:y|ies) (\S*)")
_COV = re.compile(r"^<(\w+) line \d+, col \d+ to line \d+, col \d+ of module (\w+)>: (\d+):(\d+)")


def parse_printt_json(stdout):
    """PrintT(ToJson(v)) prints a TLA+ string literal: "{\"k\":1}".  Decode twice."""
    out = []
    for line in stdout.splitlines():
        if len(line) > 3 and line[0] == '"' and line[1] in "{[" and line[-1] == '"':
            try:
                out.append(json.loads(json.loads(line)))
            except ValueError:
                # TLA+ string printing escapes only \" and \\ ; try a manual unescape
                s = line[1:-1].replace('\\"', '"').replace("\\\\", "\\")
                out.append(json.loads(s))
    return out


def new_scratch(prefix="verif-tlc-"):
    d = tempfile.mkdtemp(prefix=prefix)
    for f in glob.glob(os.path.join(SPECS, "**", "*.tla"), recursive=True):
        shutil.copy(f, os.path.join(d, os.path.basename(f)))
    return d


def run_tlc(module, cfg, *, workers=1, timeout=900, files=None, env=None, heap="3g",
            simulate=None, depth=None, seed=None, coverage=False, deque=False,
            keep=False, dfid=None, allow_violation=False, full_jit=False):
    """Run TLC on `module` (name without .tla) with configuration text `cfg`.

    files: {name: text} extra files (generated modules, trace JSON) put next to the spec.
    simulate: "num=200" etc. -> -simulate ;  returns list of behaviour files content.
    Returns TLCResult.  Raises MachineryFailure on anything that is not a clean run or a
    clean invariant/property violation (the latter only if allow_violation).
    """
    d = new_scratch()
    res = TLCResult()
    try:
        with open(os.path.join(d, module + ".cfg"), "w") as fh:
            fh.write(cfg)
        for name, text in (files or {}).items():
            with open(os.path.join(d, name), "w") as fh:
                fh.write(text)
        if workers == 1 and not full_jit:
            # many short single-worker JVMs side by side: C1 only and serial GC avoid the
            # compiler/GC thread storm (measured: 3x less CPU for runs of a few seconds)
            jopts = ["-XX:+UseSerialGC", "-XX:TieredStopAtLevel=1", "-Xms128m", "-Xmx" + heap, "-Xss64m"]
        else:
            jopts = ["-XX:+UseParallelGC", "-XX:ParallelGCThreads=%d" % max(2, min(8, workers)), "-Xmx" + heap, "-Xss64m"]
        if deque:
            jopts.append("-Dtlc2.tool.queue.IStateQueue=StateDeque")
        jopts.append("-Djava.io.tmpdir=" + d)       # SANY unpacks the standard modules into a temporary directory per run
        cmd = ["java"] + jopts + ["-cp", JAR + ":" + DEPS, "tlc2.TLC",
                                   "-workers", str(workers), "-metadir", os.path.join(d, "meta"),
                                   "-noGenerateSpecTE", "-config", module + ".cfg"]
        if coverage:
            cmd += ["-coverage", "1"]
        if simulate is not None:
            simdir = os.path.join(d, "sim")
            os.makedirs(simdir)
            cmd += ["-simulate", "file=%s/tr,%s" % (simdir, simulate)]
        if depth is not None:
            cmd += ["-depth", str(depth)]
        if seed is not None:
            cmd += ["-seed", str(seed)]
        if dfid is not None:
            cmd += ["-dfid", str(dfid)]
        cmd.append(module + ".tla")
        e = dict(os.environ)
        e.pop("JAVA_TOOL_OPTIONS", None)
        e.update(env or {})
        t0 = time.time()
        try:
            p = subprocess.run(cmd, cwd=d, env=e, stdout=subprocess.PIPE, stderr=subprocess.STDOUT,
                               timeout=timeout, text=True, errors="replace")
        except subprocess.TimeoutExpired as ex:
            if simulate is None:
                raise MachineryFailure("TLC timeout after %ss on %s" % (timeout, module)) from ex
            p = subprocess.CompletedProcess(cmd, 0, stdout=(ex.stdout or b"").decode(errors="replace")
                                            if isinstance(ex.stdout, bytes) else (ex.stdout or ""))
        res.wall_s = time.time() - t0
        res.stdout = p.stdout
        res.returncode = p.returncode
        res.cmd = "tlc -workers %s -config %s.cfg %s.tla%s" % (
            workers, module, module, (" -simulate " + simulate) if simulate else "")
        for m in _STATS.finditer(p.stdout):
            res.generated, res.distinct = int(m.group(1)), int(m.group(2))
        m = _INV.search(p.stdout)
        if m:
            res.violated = m.group(1)
        else:
            m = _PROP.search(p.stdout)
            if m:
                res.violated = m.group(1) or "property"
        if coverage:
            for line in p.stdout.splitlines():
                m = _COV.match(line.strip())
                if m:
                    res.coverage[m.group(1)] = (int(m.group(3)), int(m.group(4)))
        res.records = parse_printt_json(p.stdout)
        if simulate is not None:
            for f in sorted(glob.glob(os.path.join(d, "sim", "tr*"))):
                with open(f) as fh:
                    res.sim_files.append(fh.read())
        bad = p.returncode != 0 or "Error:" in p.stdout
        if bad and not (res.violated and allow_violation):
            # keep the tail of the output for diagnosis
            clean = "\n".join(l for l in p.stdout.splitlines() if not l.startswith('"') and not l.startswith("Computed "))
            idx = clean.find("Error:")
            res.error_text = clean[max(0, idx - 200): idx + 2500] if idx >= 0 else clean[-2500:]
            if not allow_violation or not res.violated:
                try:      # the full output of the last failing TLC run, for diagnosis (overwritten each time)
                    with open(os.path.join(tempfile.gettempdir(), "verif-last-tlc-failure.log"), "w") as fh:
                        fh.write(p.stdout)
                except OSError:
                    pass
                raise MachineryFailure("TLC failed on %s (rc=%s):\n%s" % (module, p.returncode, res.error_text))
        return res
    finally:
        if not keep:
            shutil.rmtree(d, ignore_errors=True)


def run_many(jobs, parallel=8):
    """jobs: list of (module, cfg, kwargs).  Runs them side by side; returns results in order."""
    with concurrent.futures.ThreadPoolExecutor(max_workers=parallel) as ex:
        futs = [ex.submit(run_tlc, m, c, **k) for (m, c, k) in jobs]
        return [f.result() for f in futs]


def sany(module_path):
    p = subprocess.run(["java", "-cp", JAR + ":" + DEPS, "tla2sany.SANY", os.path.basename(module_path)],
                       cwd=os.path.dirname(module_path), stdout=subprocess.PIPE, stderr=subprocess.STDOUT, text=True)
    ok = p.returncode == 0 and "Semantic errors" not in p.stdout and "Parse Error" not in p.stdout \
        and "Fatal errors" not in p.stdout and "Could not parse" not in p.stdout
    return ok, p.stdout


def tla(v):
    """Python value -> TLA+ expression text (ints, bools, strings, list/tuple -> sequence,
    set/frozenset -> set, dict -> record (string keys) )."""
    if isinstance(v, bool):
        return "TRUE" if v else "FALSE"
    if isinstance(v, int):
        return str(v)
    if isinstance(v, str):
        return '"' + v.replace("\\", "\\\\").replace('"', '\\"') + '"'
    if isinstance(v, (list, tuple)):
        return "<<" + ", ".join(tla(x) for x in v) + ">>"
    if isinstance(v, (set, frozenset)):
        return "{" + ", ".join(sorted(tla(x) for x in v)) + "}"
    if isinstance(v, dict):
        if not v:
            return "<<>>"
        return "[" + ", ".join("%s |-> %s" % (k, tla(x)) for k, x in v.items()) + "]"
    raise TypeError(type(v))


def apalache_inductive(module, init="Init", indinv="IndInv", safety="Safety", timeout=600):
    """Discharge an inductive invariant with Apalache: Init => IndInv (length 0), IndInv /\\ Next => IndInv' (length 1),
    IndInv => Safety (length 0).  Returns (ok, detail).  Runs in a scratch directory."""
    d = new_scratch("verif-apa-")
    out = []
    try:
        for a_init, a_inv, length in ((init, indinv, 0), (indinv, indinv, 1), (indinv, safety, 0)):
            cmd = ["apalache-mc", "check", "--init=" + a_init, "--inv=" + a_inv, "--length=%d" % length,
                   "--out-dir=" + os.path.join(d, "out"), module + ".tla"]
            try:
                p = subprocess.run(cmd, cwd=d, stdout=subprocess.PIPE, stderr=subprocess.STDOUT, text=True, timeout=timeout)
            except (OSError, subprocess.TimeoutExpired) as e:
                return False, "apalache not runnable: %s" % e
            ok = "EXITCODE: OK" in p.stdout
            out.append("%s=>%s@%d:%s" % (a_init, a_inv, length, "OK" if ok else "FAILED"))
            if not ok:
                return False, "; ".join(out) + "\n" + p.stdout[-600:]
        return True, "; ".join(out)
    finally:
        shutil.rmtree(d, ignore_errors=True)


def tlaps_prove(module_rel_path, timeout=600):
    """Run tlapm on a proof module (copied to a scratch directory).  Returns (ok, summary line)."""
    d = tempfile.mkdtemp(prefix="verif-tlaps-")
    try:
        shutil.copy(os.path.join(VERIF, module_rel_path), d)
        try:
            p = subprocess.run(["tlapm", os.path.basename(module_rel_path)], cwd=d, stdout=subprocess.PIPE, stderr=subprocess.STDOUT,
                               text=True, timeout=timeout)
        except (OSError, subprocess.TimeoutExpired) as e:
            return False, "tlapm not runnable: %s" % e
        m = re.search(r"All (\d+) obligations? proved", p.stdout)
        return (m is not None), (m.group(0) if m else p.stdout[-400:])
    finally:
        shutil.rmtree(d, ignore_errors=True)
