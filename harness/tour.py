"""Transition tours over a state graph emitted by TLC (edges carry state keys).

A tour is a list of paths from the initial state; together they traverse every emitted edge at
least once.  Within a path the walker prefers uncovered out-edges and otherwise takes the shortest
path (BFS) to a state that still has one; when none is reachable it starts a new path from Init."""
import collections
import json


def key(o):
    return json.dumps(o, sort_keys=True)


def tours(edges, init_key, get_from=lambda e: e["from"], get_to=lambda e: e["to"], max_path=400):
    ids = {}

    def sid(k):
        if k not in ids:
            ids[k] = len(ids)
        return ids[k]

    init = sid(init_key)
    frm = [sid(key(get_from(e))) for e in edges]
    to = [sid(key(get_to(e))) for e in edges]
    n = len(ids)
    out = [[] for _ in range(n)]          # all out-edges
    for i, f in enumerate(frm):
        out[f].append(i)
    pending = [list(reversed(o)) for o in out]     # uncovered out-edges (stack)
    covered = [False] * len(edges)
    remaining = len(edges)
    paths = []

    def next_uncovered(s):
        p = pending[s]
        while p and covered[p[-1]]:
            p.pop()
        return p[-1] if p else None

    while remaining:
        cur = init
        path = []
        while len(path) < max_path:
            i = next_uncovered(cur)
            if i is not None:
                covered[i] = True
                remaining -= 1
                path.append(i)
                cur = to[i]
                continue
            prev = {cur: None}
            dq = collections.deque([cur])
            goal = None
            while dq:
                s = dq.popleft()
                if s != cur and next_uncovered(s) is not None:
                    goal = s
                    break
                for j in out[s]:
                    t = to[j]
                    if t not in prev:
                        prev[t] = (s, j)
                        dq.append(t)
            if goal is None:
                break
            seg = []
            s = goal
            while prev[s] is not None:
                s, j = prev[s]
                seg.append(j)
            path.extend(reversed(seg))
            cur = goal
        if not path:
            raise RuntimeError("tour: %d edges unreachable from the initial state" % remaining)
        paths.append(path)
    return paths
