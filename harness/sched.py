"""Deterministic scheduling of real Python threads over permuta/perm_sets/permset.py.

Exactly one worker thread runs at a time.  Each worker installs a sys.settrace function that hands
control back to the scheduler at every *line* (or opcode) event inside permset.py; Av._CACHE_LOCK is
replaced, inside this process only, by a scheduler-aware lock with the same interface (a thread that
would block is marked blocked and yields instead of blocking the process).  After every step the
scheduler projects the shared state (len(cache), compacted levels, lock owner) and emits an abstract
event whenever it changes.
"""
import sys
import threading

from permuta.perm_sets import permset
from permuta.perm_sets.permset import Av

TARGET = permset.__file__


class SchedLock:
    def __init__(self, sch):
        self.sch = sch
        self.owner = None

    def acquire(self, *a, **k):
        t = self.sch.current()
        # acquire(blocking, timeout) / acquire(block, timeout): a wait that is bounded may expire whenever the lock is held
        # by another thread (a schedule in which the holder is slow).  The scheduler explores that outcome only when asked
        # (expire_bounded), at most three times per thread and run, and remembers that a bounded wait was seen at all.
        blocking = a[0] if a else k.get("blocking", k.get("block", True))
        timeout = a[1] if len(a) > 1 else k.get("timeout", None)
        bounded = (not blocking) or (timeout is not None and timeout >= 0)
        if bounded:
            self.sch.saw_bounded = True
            if self.owner is not None and self.owner != t:
                n = self.sch.expiries.get(t, 0)
                if (not blocking) or (self.sch.expire_bounded and n < 3):
                    self.sch.expiries[t] = n + 1
                    return False
        while self.owner is not None and self.owner != t:
            self.sch.block(t)
        self.owner = t
        self.sch.note_lock(t, True)
        return True

    def release(self):
        t = self.owner
        self.owner = None
        self.sch.note_lock(t, False)
        self.sch.unblock_all()

    def __enter__(self):
        self.acquire()
        return self

    def __exit__(self, *exc):
        self.release()
        return False


class Scheduler:
    def __init__(self, opcodes=False, step_timeout=1.5):
        self.opcodes = opcodes
        self.step_timeout = step_timeout
        self.saw_bounded = False        # some acquire of the class lock had a timeout / was non-blocking (sticky)
        self.expire_bounded = False     # let such waits expire while the lock is held by another thread
        self.expiries = {}

    # ---- worker side ---------------------------------------------------------------------
    def current(self):
        return getattr(self.local, "tid", None)

    def _tracer(self, frame, event, arg):
        if frame.f_code.co_filename != TARGET:
            return None
        if self.opcodes:
            frame.f_trace_opcodes = True
        return self._local_tracer

    def _local_tracer(self, frame, event, arg):
        if event == "line" or (self.opcodes and event == "opcode"):
            self._yield(self.current(), "line")
        return self._local_tracer

    def _yield(self, t, why):
        if t is None:
            return
        self.status[t] = why
        self.arrived[t].release()
        self.go[t].acquire()
        self.status[t] = "running"

    def block(self, t):
        if t is None:
            raise RuntimeError("lock contention outside a scheduled thread")
        self.blocked.add(t)
        self.saw_block = True
        self._yield(t, "blocked")

    def unblock_all(self):
        self.blocked.clear()

    def note_lock(self, t, taken):
        self.lock_owner = t if taken else None

    def _worker(self, t, fn):
        self.local.tid = t
        self.go[t].acquire()
        sys.settrace(self._tracer)
        try:
            self.results[t] = ("ok", fn())
        except BaseException as e:  # pylint: disable=broad-except
            self.results[t] = ("raise", type(e).__name__ + ": " + str(e)[:100])
        finally:
            sys.settrace(None)
            self.done.add(t)
            self.status[t] = "done"
            self.arrived[t].release()

    # ---- scheduler side ---------------------------------------------------------------------
    def project(self, av):
        cache = av.cache
        comp = tuple(k for k, lev in enumerate(list(cache)) if lev and any(v is None for v in list(lev.values())))
        done_calls = tuple(sorted(getattr(self, "completed", {}).items()))
        return (len(cache), comp, self.lock_owner, done_calls)

    def run(self, av, fns, policy, max_steps=200000):
        """fns: {tid: callable}.  policy(state) -> tid to run next (state = dict with runnable, steps, ...)."""
        n = len(fns)
        self.local = threading.local()
        self.go = {t: threading.Semaphore(0) for t in fns}
        self.arrived = {t: threading.Semaphore(0) for t in fns}
        self.external = set()       # threads blocked on something the scheduler does not control
        self.status = {t: "new" for t in fns}
        self.results = {}
        self.done = set()
        self.blocked = set()
        self.lock_owner = None
        self.saw_block = False
        self.expiries = {}
        self.events = []
        self.steps = {t: 0 for t in fns}
        had_lock = "_CACHE_LOCK" in vars(Av)
        old_lock = vars(Av).get("_CACHE_LOCK")
        lock = SchedLock(self)
        if had_lock:
            Av._CACHE_LOCK = lock          # otherwise the code synchronises differently: real blocking is
                                           # detected by the step timeout and handled as "externally blocked"
        threads = {t: threading.Thread(target=self._worker, args=(t, fn), daemon=True) for t, fn in fns.items()}
        for th in threads.values():
            th.start()
        self.proj = self.project(av)
        stuck = False
        total = 0
        try:
            while len(self.done) < n and total < max_steps:
                # a thread that was blocked on an uncontrolled primitive (e.g. a real lock held by a
                # preempted thread) becomes schedulable again once it reaches its next yield point
                for t in list(self.external):
                    if self.arrived[t].acquire(blocking=False):
                        self.external.discard(t)
                        self._after_step(t, av)
                runnable = [t for t in fns if t not in self.done and t not in self.blocked and t not in self.external]
                if not runnable:
                    if self.blocked and lock.owner is None:
                        self.blocked.clear()
                        continue
                    if self.external:
                        # everything else is finished or waiting: give the externally blocked threads time
                        t = next(iter(self.external))
                        if self.arrived[t].acquire(timeout=self.step_timeout):
                            self.external.discard(t)
                            self._after_step(t, av)
                            continue
                    stuck = True
                    break
                t = policy({"runnable": runnable, "steps": self.steps, "done": self.done, "blocked": self.blocked,
                            "events": self.events})
                if t not in runnable:
                    t = runnable[0]
                self.go[t].release()
                if not self.arrived[t].acquire(timeout=self.step_timeout):
                    self.external.add(t)
                    self.saw_block = True
                    continue
                total += 1
                self._after_step(t, av)
        finally:
            if had_lock:
                Av._CACHE_LOCK = old_lock
            if stuck or total >= max_steps:
                # let everything run free so that no thread is left waiting on our semaphores
                for t in fns:
                    for _ in range(1000):
                        self.go[t].release()
            for th in threads.values():
                th.join(timeout=5)
        return {"results": self.results, "events": self.events, "stuck": stuck, "steps": dict(self.steps),
                "saw_block": self.saw_block}

    def _after_step(self, t, av):
        self.steps[t] += 1
        p2 = self.project(av)
        if p2 != self.proj:
            self._emit(t, self.proj, p2, av)
            self.proj = p2
        if t in self.done:
            self.events.append({"t": t, "ev": "Return"})

    def _emit(self, t, p, q, av):
        if p[2] != q[2]:
            self.events.append({"t": t, "ev": "Acquire" if q[2] is not None else "Release"})
        if q[0] > p[0]:
            for k in range(p[0], q[0]):
                self.events.append({"t": t, "ev": "AppendLevel", "k": k, "size": len(av.cache[k])})
        elif q[0] < p[0]:
            self.events.append({"t": t, "ev": "Shrink", "k": q[0], "size": 0})
        for k in q[1]:
            if k not in p[1] and k < p[0]:       # (a level of a mesh class is born compacted: that is its AppendLevel, not a compaction)
                self.events.append({"t": t, "ev": "CompactOne", "k": k, "size": 0})
        if len(p) > 3 and p[3] != q[3]:
            for (th, n0), (_, n1) in zip(p[3], q[3]):
                for c in range(n0, n1):
                    self.events.append({"t": th, "ev": "CallDone", "k": c + 1, "size": 0})


def preempt_policy(order, first, j):
    """Run thread `first` for j steps, then the other threads (in `order`) for as long as they can run,
    then `first` to completion, then whatever is left."""
    def policy(st):
        if st["steps"][first] < j and first in st["runnable"]:
            return first
        for t in order:
            if t != first and t in st["runnable"]:
                return t
        return st["runnable"][0]
    return policy


def word_policy(word):
    """Follow an explicit schedule word (list of thread ids); afterwards round-robin."""
    pos = [0]

    def policy(st):
        while pos[0] < len(word):
            t = word[pos[0]]
            pos[0] += 1
            if t in st["runnable"]:
                return t
        return st["runnable"][0]
    return policy


def two_preempt_policy(order, first, j1, second, j2):
    """Preemption bound 2: `first` runs j1 steps, `second` runs j2 steps, then `first` runs as far as it can,
    then `second`, then whatever is left."""
    def policy(st):
        if st["steps"][first] < j1 and first in st["runnable"]:
            return first
        if st["steps"][second] < j2 and second in st["runnable"]:
            return second
        if first in st["runnable"]:
            return first
        if second in st["runnable"]:
            return second
        return st["runnable"][0]
    return policy


class EventWordPolicy:
    """Follow a behaviour of the model given as its word of observable events: let the thread of the next event run
    until an observable event occurs; it must be the expected one.  On the first mismatch (or if the thread cannot
    run) the word is abandoned (`mismatch` says why) and the threads are run to completion round-robin."""

    def __init__(self, word):
        self.word = word
        self.pos = 0
        self.seen = 0
        self.mismatch = None
        self.budget = 0

    def __call__(self, st):
        ev = st["events"]
        while self.mismatch is None and self.pos < len(self.word) and self.seen < len(ev):
            got = ev[self.seen]
            self.seen += 1
            if got["ev"] == "Return":
                continue
            want = self.word[self.pos]
            if got["t"] == want["t"] and got["ev"] == want["kind"] and (want["kind"] in ("Acquire", "Release") or got.get("k", 0) == want["k"]):
                self.pos += 1
                self.budget = 0
            else:
                self.mismatch = {"at": self.pos, "want": want, "got": got}
        if self.mismatch is None and self.pos < len(self.word):
            t = self.word[self.pos]["t"]
            self.budget += 1
            if t in st["runnable"] and self.budget < 100000:
                return t
            self.mismatch = {"at": self.pos, "want": self.word[self.pos], "got": "thread %s cannot run" % t}
        return st["runnable"][0]
