"""A second interpreter in which hash values of the library's objects collide all the time.

    python -m harness.weakhash <adapter> <function> <seed> <tier> <buckets>

Equal objects must have equal hashes; nothing says that unequal objects have different ones.  In this interpreter the
hash of every permutation, mesh-type pattern and basis is its ordinary hash reduced modulo <buckets> (installed the
moment the defining module has been executed, before any other module of the package can put such an object into a
set or a dictionary).  Sets and dictionaries still work - they compare on collision - only slower.  Code that takes a
hash value for the identity of an object (a memo keyed by hash(...), a quick rejection by unequal hash that is used
as a proof of equality) answers wrongly here all the time, while in an ordinary interpreter it would need an engineered
64-bit collision.

The named function of the adapter (signature f(ctx) -> list of trace events, recorded from the real code only) is run
with a stub context; the events and the violations it reported are printed as one JSON document.  The caller (the
adapter in the ordinary interpreter) lets TLC judge the events with its trace specification.
"""
import importlib
import importlib.machinery
import json
import os
import sys

TARGET_MODULES = {
    "permuta.patterns.perm": ("Perm",),
    "permuta.patterns.meshpatt": ("MeshPatt",),
    "permuta.patterns.bivincularpatt": ("BivincularPatt", "VincularPatt", "CovincularPatt"),
    "permuta.perm_sets.basis": ("Basis", "MeshBasis"),
}
PATCHED = []


def weaken(cls, buckets):
    own = cls.__dict__.get("__hash__")
    if own is None:
        if not issubclass(cls, tuple):
            return
        own = tuple.__hash__

    def weak(self, _own=own):
        return _own(self) % buckets
    cls.__hash__ = weak
    PATCHED.append(cls.__name__)


def install(buckets):
    orig = importlib.machinery.SourceFileLoader.exec_module

    def exec_module(self, module):
        orig(self, module)
        for name in TARGET_MODULES.get(module.__name__, ()):
            cls = getattr(module, name, None)
            if isinstance(cls, type):
                weaken(cls, buckets)
    importlib.machinery.SourceFileLoader.exec_module = exec_module


def main():
    adapter, func, seed, tier, buckets = sys.argv[1], sys.argv[2], int(sys.argv[3]), sys.argv[4], int(sys.argv[5])
    install(buckets)
    import permuta  # noqa: F401  (the classes are weakened while the package is being imported)
    from harness.core import Ctx

    class Stub(Ctx):
        def __init__(self):
            super().__init__(adapter.upper(), tier, seed)
            self.collected = []
            self.scratch = os.getcwd()

        def violation(self, case, clause, expected, observed, extra=None):
            self.collected.append({"case": case, "clause": clause, "expected": expected, "observed": observed})

        def drift(self, what):
            pass

        def known_finding(self, entry, witness):
            pass
    ctx = Stub()
    mod = importlib.import_module("harness.adapters." + adapter.lower())
    events = getattr(mod, func)(ctx)
    json.dump({"events": events, "violations": ctx.collected, "patched": PATCHED}, sys.stdout, default=str)


if __name__ == "__main__":
    main()
